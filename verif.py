#!/usr/bin/env python3
"""Driver for the b6 property checks.

  verif.py run <ID> [--tier quick|thorough] [--seed N]
  verif.py replay <ID> <file>
  verif.py setup | manifest | baseline | list

A check is a Go test package under harness/ built against /repo's current
working tree with -tags verif.  The driver builds it, replays saved cases
(known findings, fixed findings, regression corpus), runs the generated
campaign in one or more shards (rapid is single threaded), attributes process
crashes and hangs to the write-ahead case, minimises crash cases, and writes
evidence/<ID>.json.

Exit codes: 0 property held on everything explored (known findings are printed
as KNOWN-FINDING lines); 1 violation (a line "VIOLATION property=<ID>
replay=<path>" is printed); 2 inconclusive (build failure, timeout, resource
exhaustion, infrastructure error).
"""
import argparse
import concurrent.futures as cf
import glob
import hashlib
import json
import os
import shutil
import subprocess
import sys
import time

ROOT = os.path.dirname(os.path.abspath(__file__))
HARNESS = os.path.join(ROOT, "harness")
REPO = "/repo"
B6 = os.path.join(REPO, "src/diagonal.works/b6")
BUILD = os.path.join(ROOT, ".build")
WORK = os.path.join(ROOT, ".work")
if os.path.isdir("/dev/shm") and os.access("/dev/shm", os.W_OK):
    WORK = "/dev/shm/verif-work"  # transient per-run scratch (write-ahead cases, stats); removed after each run

sys.path.insert(0, ROOT)
from checks import CHECKS, HOOK_COMMITS  # noqa: E402


def goenv():
    env = dict(os.environ)
    env.update(GOFLAGS="-mod=mod", GOPROXY="off", GOSUMDB="off", GOTOOLCHAIN="local",
               VERIF_ROOT=ROOT)
    return env


def log(*a):
    print(*a, flush=True)


def build(cid, race=False):
    cfg = CHECKS[cid]
    os.makedirs(BUILD, exist_ok=True)
    src_sum = os.path.join(B6, "go.sum")
    dst_sum = os.path.join(HARNESS, "go.sum")
    # go.sum: union of the repository's and the harness's own (rapid) entries
    lines = set()
    for p in (src_sum, dst_sum, os.path.join(HARNESS, "go.sum.base")):
        if os.path.exists(p):
            lines.update(l for l in open(p).read().splitlines() if l.strip())
    with open(dst_sum, "w") as f:
        f.write("\n".join(sorted(lines)) + "\n")
    out = os.path.join(BUILD, cid.lower() + (".race" if race else "") + ".test")
    cmd = ["go", "test", "-c", "-tags", "verif", "-vet=off", "-o", out]
    if race:
        cmd.append("-race")
    cmd.append("./" + cfg["pkg"])
    t0 = time.time()
    p = subprocess.run(cmd, cwd=HARNESS, env=goenv(), capture_output=True, text=True)
    if p.returncode != 0:
        log("BUILD-FAILED", cid)
        log(p.stdout[-4000:])
        log(p.stderr[-4000:])
        return None
    log(f"built {cid} in {time.time()-t0:.1f}s")
    return out


def run_binary(binary, args, env_extra, timeout, cwd):
    env = goenv()
    # race-detector builds: end the process at the first report, so that it is attributed to the
    # case in the write-ahead record like any other crash
    env["GORACE"] = "halt_on_error=1 exitcode=66"
    env.update(env_extra)
    os.makedirs(cwd, exist_ok=True)
    try:
        p = subprocess.run([binary] + args, cwd=cwd, env=env, capture_output=True, text=True,
                           timeout=timeout, errors="replace")
        return p.returncode, p.stdout + "\n" + p.stderr
    except subprocess.TimeoutExpired as e:
        out = (e.stdout or b"")
        if isinstance(out, bytes):
            out = out.decode("utf8", "replace")
        return -999, out + "\nDRIVER-TIMEOUT"


def load_findings():
    p = os.path.join(ROOT, "known_findings.json")
    if not os.path.exists(p):
        return []
    return json.load(open(p)).get("findings", [])


def replay_file(binary, cid, path, ignore_known, workdir, timeout=120):
    """Returns 'pass', 'fail', 'skip', 'crash', 'hang' or 'error' and the output."""
    env = {"VERIF_REPLAY": path, "VERIF_WORK": workdir, "VERIF_SHARD": "replay"}
    if ignore_known:
        env["VERIF_IGNORE_KNOWN"] = "1"
    rc, out = run_binary(binary, ["-test.run", "^TestProp", "-test.timeout", f"{timeout}s"], env,
                         timeout + 30, workdir)
    return classify_replay(rc, out), out


def classify_replay(rc, out):
    if "status=fail" in out:
        return "fail"
    if rc == 3 or "VERIF-HANG" in out or rc == -999 or "test timed out" in out:
        return "hang"
    if rc != 0 and ("panic:" in out or "fatal error:" in out or "SIGSEGV" in out or "WARNING: DATA RACE" in out):
        return "crash"
    if rc != 0:
        return "error"
    if "status=pass" in out:
        return "pass"
    if "status=skip" in out:
        return "skip"
    return "error"


def save_failure(cid, src_record_path, message=None):
    d = os.path.join(ROOT, "failures", cid)
    os.makedirs(d, exist_ok=True)
    data = open(src_record_path, "rb").read()
    if message:
        try:
            rec = json.loads(data)
            rec["message"] = (rec.get("message") or "") + message
            data = json.dumps(rec).encode()
        except Exception:
            pass
    h = hashlib.sha1(data).hexdigest()[:12]
    dst = os.path.join(d, h + ".json")
    with open(dst, "wb") as f:
        f.write(data)
    return dst


# --- crash-case minimisation (delta debugging over JSON lists) -------------

def _paths_to_lists(v, path=()):
    if isinstance(v, list):
        yield path
        for i, x in enumerate(v):
            yield from _paths_to_lists(x, path + (i,))
    elif isinstance(v, dict):
        for k, x in v.items():
            yield from _paths_to_lists(x, path + (k,))


def _get(v, path):
    for p in path:
        v = v[p]
    return v


def minimise_crash(binary, cid, record_path, kind, workdir, budget=40):
    rec = json.load(open(record_path))
    case = rec["case"]
    tries = 0
    tmp = os.path.join(workdir, "min-candidate.json")

    def still(c):
        nonlocal tries
        tries += 1
        json.dump({"property": rec["property"], "campaign": rec["campaign"], "case": c}, open(tmp, "w"))
        st, _ = replay_file(binary, cid, tmp, False, workdir, timeout=60)
        return st == kind

    changed = True
    while changed and tries < budget:
        changed = False
        for path in sorted(_paths_to_lists(case), key=lambda p: len(p)):
            try:
                lst = _get(case, path)
            except (KeyError, IndexError, TypeError):
                continue
            if not isinstance(lst, list):
                continue
            i = len(lst) - 1
            while i >= 0 and tries < budget:
                cand = json.loads(json.dumps(case))
                del _get(cand, path)[i]
                if still(cand):
                    case = cand
                    changed = True
                i -= 1
    rec["case"] = case
    rec["message"] = f"process {kind} (minimised by the driver in {tries} replays)"
    json.dump(rec, open(record_path, "w"))
    return record_path


# --- main run ---------------------------------------------------------------

def run_check(cid, tier, seed):
    t0 = time.time()
    cfg = CHECKS[cid]
    tcfg = cfg[tier]
    race = cfg.get("race", False)
    binary = build(cid, race)
    if binary is None:
        return 2
    work = os.path.join(WORK, f"{cid}-{tier}-{os.getpid()}")
    shutil.rmtree(work, ignore_errors=True)
    os.makedirs(work)
    statsdir = os.path.join(work, "stats")
    violations = []
    known_lines = []
    inconclusive = []
    shutil.rmtree(os.path.join(ROOT, "failures", cid), ignore_errors=True)
    try:
        # 1. replay tier: known findings, fixed findings, regression corpus
        findings = [f for f in load_findings() if f["property"] == cid]
        listed = set()
        for f in findings:
            path = os.path.join(ROOT, f["replay"])
            listed.add(os.path.abspath(path))
            # a known finding is replayed with its own exclusion switched off; a fixed one runs like
            # any other input (other, still known, findings may touch the same case)
            st, out = replay_file(binary, cid, path, f["status"] == "known", work)
            if f["status"] == "known":
                if st in ("fail", "crash", "hang"):
                    known_lines.append(f"KNOWN-FINDING: property={cid} {f['id']}: {f['what']}")
                elif st == "pass":
                    log(f"note: known finding {f['id']} no longer reproduces (replay passes)")
                else:
                    log(f"note: known finding {f['id']} replay status={st}")
                    log(out[-2000:])
                    inconclusive.append(f"known finding replay {st}")
            else:  # fixed: suppresses nothing
                if st in ("fail", "crash") or (st == "hang" and cfg.get("hang_violation")):
                    violations.append(path)
                    log(out[-3000:])
                elif st != "pass":
                    log(f"note: fixed finding {f['id']} replay status={st}")
                    log(out[-2000:])
                    inconclusive.append(f"fixed finding replay {st}")
        for path in sorted(glob.glob(os.path.join(ROOT, "replay", cid, "*.json"))):
            if os.path.abspath(path) in listed:
                continue
            st, out = replay_file(binary, cid, path, False, work)
            if st in ("fail", "crash") or (st == "hang" and cfg.get("hang_violation")):
                violations.append(path)
                log(out[-3000:])
            elif st not in ("pass", "skip"):
                inconclusive.append(f"corpus replay {path} {st}")
        for l in known_lines:
            log(l)

        # 2. generated campaign, sharded by seed
        shards = tcfg.get("shards", 1)
        checks = tcfg["checks"]
        timeout = tcfg.get("timeout", 600)
        base_seed = seed * 1000 + 1

        def shard(i):
            sd = os.path.join(work, f"shard{i}")
            env = {"VERIF_WORK": sd, "VERIF_SHARD": str(i), "VERIF_STATS": statsdir,
                   "VERIF_TIER": tier, "VERIF_SEED": str(seed)}
            args = ["-test.run", "^TestProp", "-test.timeout", f"{timeout}s",
                    f"-rapid.checks={checks}", f"-rapid.seed={base_seed + i}",
                    "-rapid.nofailfile", "-rapid.shrinktime=20s"]
            if tcfg.get("steps"):
                args.append(f"-rapid.steps={tcfg['steps']}")
            rc, out = run_binary(binary, args, env, timeout + 60, sd)
            return i, rc, out, sd

        with cf.ThreadPoolExecutor(max_workers=min(shards, 16)) as ex:
            results = list(ex.map(shard, range(shards)))
        crash_seen = False
        for i, rc, out, sd in results:
            if rc == 0:
                continue
            fails = glob.glob(os.path.join(sd, "lastfail-*.json"))
            if fails:
                for fp in fails:
                    dst = save_failure(cid, fp)
                    violations.append(dst)
                    rec = json.load(open(fp))
                    log(f"--- shard {i} campaign {rec.get('campaign')} failed; shrunk case:")
                    log(json.dumps(rec.get("case"))[:3000])
                    log("\n".join((rec.get("message") or "").splitlines()[:25]))
                continue
            kind = None
            if rc == 3 or "VERIF-HANG" in out:
                kind = "hang"
            elif "DRIVER-TIMEOUT" in out or "test timed out" in out:
                kind = "timeout"
            elif "panic:" in out or "fatal error:" in out or "SIGSEGV" in out or "WARNING: DATA RACE" in out:
                kind = "crash"
            log(f"--- shard {i} exited rc={rc} kind={kind}:")
            log(tail(out, 80))
            if kind == "crash" or (kind == "hang" and cfg.get("hang_violation")):
                wals = sorted(glob.glob(os.path.join(sd, "wal-*.json")), key=os.path.getmtime)
                if not wals:
                    inconclusive.append(f"shard {i} {kind} without write-ahead case")
                    continue
                if crash_seen:
                    continue  # minimise only one crash per run
                crash_seen = True
                wal = wals[-1]
                st, _ = replay_file(binary, cid, wal, False, work, timeout=60)
                if st == kind:
                    minimise_crash(binary, cid, wal, kind, work)
                    violations.append(save_failure(cid, wal))
                elif st == "fail":
                    violations.append(save_failure(cid, wal))
                else:
                    # does not reproduce from the saved input alone
                    dst = save_failure(cid, wal, f" [process {kind}; replay of this case alone gave {st}]")
                    if "fatal error: out of memory" in out or "cannot allocate memory" in out:
                        inconclusive.append(f"shard {i} out of memory")
                    else:
                        violations.append(dst)
            else:
                inconclusive.append(f"shard {i} rc={rc} kind={kind}")

        # 3. evidence
        ev = merge_stats(cid, tier, seed, statsdir, time.time() - t0, len(violations), known_lines,
                         cfg, tcfg)
        os.makedirs(os.path.join(ROOT, "evidence"), exist_ok=True)
        with open(os.path.join(ROOT, "evidence", cid + ".json"), "w") as f:
            json.dump(ev, f, indent=1)
        cov = ev["coverage"]
        log(f"{cid} {tier}: evaluations={cov['evaluations']} distinct_nontrivial={cov['distinct_nontrivial']} "
            f"skipped={cov.get('skipped', 0)} wall={ev['wall_s']:.1f}s")
        log("classes: " + json.dumps(cov.get("classes", {}), sort_keys=True))
    finally:
        shutil.rmtree(work, ignore_errors=True)
    if violations:
        for v in dict.fromkeys(violations):
            log(f"VIOLATION property={cid} replay={v}")
        return 1
    if inconclusive:
        log("INCONCLUSIVE: " + "; ".join(inconclusive))
        return 2
    if cov["evaluations"] < 1 or cov["distinct_nontrivial"] < 2:
        log("INCONCLUSIVE: campaign produced too few non-trivial cases")
        return 2
    return 0


def tail(s, n):
    lines = s.splitlines()
    return "\n".join(lines[-n:])


def merge_stats(cid, tier, seed, statsdir, wall, nviol, known_lines, cfg, tcfg):
    evaluations = 0
    skipped = 0
    fps = set()
    classes = {}
    samples = []
    rules = []
    campaigns = {}
    exhaustive_all = True
    any_stats = False
    for p in sorted(glob.glob(os.path.join(statsdir, "*.json"))):
        try:
            s = json.load(open(p))
        except Exception:
            continue
        any_stats = True
        evaluations += s["evaluations"]
        skipped += s.get("skipped", 0)
        for fp in s.get("nontrivial_fingerprints") or []:
            fps.add(s["name"] + ":" + fp)
        for k, v in (s.get("classes") or {}).items():
            classes[s["name"] + "/" + k] = classes.get(s["name"] + "/" + k, 0) + v
        c = campaigns.setdefault(s["name"], {"evaluations": 0, "rule": s["rule"], "samples": 0})
        c["evaluations"] += s["evaluations"]
        if s["rule"] not in rules:
            rules.append(s["rule"])
        for smp in s.get("samples") or []:
            if c["samples"] < 2:
                c["samples"] += 1
                samples.append({"campaign": s["name"], "case": smp})
        if not s.get("exhaustive"):
            exhaustive_all = False
    for c in campaigns.values():
        del c["samples"]
    cov = {
        "evaluations": evaluations,
        "distinct_nontrivial": len(fps),
        "rule": " || ".join(rules) if rules else cfg.get("rule", ""),
        "samples": samples[:12],
        "skipped": skipped,
        "classes": classes,
        "campaigns": campaigns,
        "shards": tcfg.get("shards", 1),
        "checks_per_shard_requested": tcfg["checks"],
        "known_findings_reported": known_lines,
    }
    if any_stats and exhaustive_all:
        cov["exhaustive"] = True
    return {
        "property_id": cid,
        "tier": tier,
        "seed": seed,
        "level": "exploration",
        "coverage": cov,
        "assumptions": cfg.get("assumptions", []),
        "wall_s": round(wall, 2),
        "violations": nviol,
    }


def cmd_replay(cid, path):
    binary = build(cid, CHECKS[cid].get("race", False))
    if binary is None:
        return 2
    work = os.path.join(WORK, f"{cid}-replay-{os.getpid()}")
    os.makedirs(work, exist_ok=True)
    try:
        st, out = replay_file(binary, cid, os.path.abspath(path), True, work)
    finally:
        shutil.rmtree(work, ignore_errors=True)
    log(tail(out, 60))
    log(f"replay status: {st}")
    if st in ("fail", "crash", "hang"):
        log(f"VIOLATION property={cid} replay={os.path.abspath(path)}")
        return 1
    return 0 if st in ("pass", "skip") else 2


def cmd_setup():
    """Warm the Go build cache: compile every check once."""
    ok = True
    for cid in CHECKS:
        if build(cid, CHECKS[cid].get("race", False)) is None:
            ok = False
    return 0 if ok else 1


BASELINE_CMD = ("cd /repo/src/diagonal.works/b6 && GOFLAGS=-mod=mod GOPROXY=off GOSUMDB=off "
                "GOTOOLCHAIN=local go test -json -vet=off -count=1 -timeout 25m ./...")


def cmd_baseline():
    """Run the repository suite with the guard off and compare with BASELINE.json."""
    base = json.load(open("/root/.vp/BASELINE.json"))
    want = set(base["stable_pass"])
    p = subprocess.run(BASELINE_CMD, shell=True, capture_output=True, text=True)
    passed = set()
    failed = set()
    for line in p.stdout.splitlines():
        try:
            e = json.loads(line)
        except Exception:
            continue
        if e.get("Test") and e.get("Action") in ("pass", "fail"):
            name = f"{e['Package']}::{e['Test']}"
            (passed if e["Action"] == "pass" else failed).add(name)
    missing = sorted(want - passed)
    log(f"baseline: {len(passed)} passed, {len(failed)} failed, {len(want)} expected, {len(missing)} missing")
    for m in missing[:50]:
        log("  MISSING " + m)
    for m in sorted(failed)[:50]:
        log("  FAILED " + m)
    subprocess.run(["git", "-C", REPO, "status", "--short"])
    return 0 if not missing else 1


def cmd_manifest():
    props = {}
    for l in open(os.path.join(ROOT, "properties.jsonl")):
        p = json.loads(l)
        props[p["id"]] = p
    checks = []
    for cid, cfg in CHECKS.items():
        if cfg.get("unregistered"):
            continue
        checks.append({
            "property_id": cid,
            "quick_cmd": f"python3 verif.py run {cid} --tier quick",
            "thorough_cmd": f"python3 verif.py run {cid} --tier thorough",
            "evidence_file": f"/verif/evidence/{cid}.json",
            "replay_cmd_template": f"python3 verif.py replay {cid} {{path}}",
            "engine": "rapid-harness",
            "level_claimed": {
                "category": "exploration",
                "text": cfg["level_text"],
                "design_ref": f"DESIGN.md section 5 ({cid}: design) and section 9 (as built, findings, seeded changes)",
            },
            "level_note": cfg["level_note"],
            "technique": cfg["technique"],
        })
    claimed = {c["property_id"] for c in checks}
    na = []
    reasons = json.load(open(os.path.join(ROOT, "not_applicable.json")))
    for pid in props:
        if pid not in claimed:
            na.append({"property_id": pid, "reason": reasons.get(pid, "check not yet built in this session; see DESIGN.md section 5 for the planned property-based check")})
    m = {
        "version": 1,
        "setup_cmd": "python3 verif.py setup",
        "hooks": {
            "guard": "verif",
            "enable": "go test -tags verif (every check is built by verif.py with -tags verif against /repo/src/diagonal.works/b6 through a replace directive)",
            "baseline_off_cmd": BASELINE_CMD,
            "source_commits": HOOK_COMMITS,
            "add_only": True,
        },
        "engines": [{
            "name": "rapid-harness",
            "path": "/verif/harness",
            "serves_properties": sorted(claimed),
            "kind_free_text": "Go test packages using pgregory.net/rapid v1.3.0 (generated cases as JSON values, explicit oracles, shrinking, replay of saved cases), driven by verif.py (sharding, crash/hang attribution, evidence)",
        }],
        "checks": checks,
        "notes": "Exit 2 from a check means inconclusive (build failure, timeout, resource exhaustion), never a violation. New failing cases are written under /verif/failures/<id>/; known and fixed findings are in known_findings.json with their replays under /verif/replay/<id>/.",
        "not_applicable": na,
    }
    with open(os.path.join(ROOT, "MANIFEST.json"), "w") as f:
        json.dump(m, f, indent=1)
    log(f"MANIFEST.json: {len(checks)} checks, {len(na)} not claimed")
    return 0


def main():
    ap = argparse.ArgumentParser()
    sub = ap.add_subparsers(dest="cmd", required=True)
    r = sub.add_parser("run")
    r.add_argument("id")
    r.add_argument("--tier", default=os.environ.get("VERIF_TIER", "quick"), choices=["quick", "thorough"])
    r.add_argument("--seed", type=int, default=int(os.environ.get("VERIF_SEED", "1") or 1))
    rp = sub.add_parser("replay")
    rp.add_argument("id")
    rp.add_argument("path")
    sub.add_parser("setup")
    sub.add_parser("manifest")
    sub.add_parser("baseline")
    sub.add_parser("list")
    al = sub.add_parser("all")
    al.add_argument("--tier", default="quick", choices=["quick", "thorough"])
    al.add_argument("--seed", type=int, default=1)
    al.add_argument("--only", default="")
    a = ap.parse_args()
    os.chdir(ROOT)
    if a.cmd == "run":
        if a.id not in CHECKS:
            log(f"unknown check {a.id}")
            return 2
        try:
            return run_check(a.id, a.tier, abs(a.seed))
        except Exception as e:  # infrastructure error: inconclusive, never a violation
            import traceback
            traceback.print_exc()
            log(f"INCONCLUSIVE: driver error {e}")
            return 2
    if a.cmd == "replay":
        return cmd_replay(a.id, a.path)
    if a.cmd == "setup":
        return cmd_setup()
    if a.cmd == "manifest":
        return cmd_manifest()
    if a.cmd == "baseline":
        return cmd_baseline()
    if a.cmd == "all":
        bad = []
        ids = [c for c in CHECKS if not a.only or c in a.only.split(",")]
        for cid in ids:
            t0 = time.time()
            p = subprocess.run([sys.executable, os.path.join(ROOT, "verif.py"), "run", cid, "--tier", a.tier, "--seed", str(a.seed)],
                               capture_output=True, text=True)
            last = [l for l in p.stdout.splitlines() if l.startswith(cid + " ")]
            log(f"{cid}: exit={p.returncode} {time.time()-t0:.0f}s {last[-1][:160] if last else ''}")
            if p.returncode != 0:
                bad.append(cid)
                log("\n".join(l[:300] for l in p.stdout.splitlines() if l.startswith(("VIOLATION", "INCONCLUSIVE", "---", "BUILD"))))
        log("ALL OK" if not bad else "NOT OK: " + " ".join(bad))
        return 0 if not bad else 1
    if a.cmd == "list":
        for cid in CHECKS:
            log(cid)
        return 0


if __name__ == "__main__":
    sys.exit(main())
