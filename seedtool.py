#!/usr/bin/env python3
"""Tools for seeded (deliberately broken) variants of /repo.

  seedtool.py verify <ID> <variant>   confirm an agent's change in a scratch worktree and store it
                                      under /verif/seeded/<ID>-<variant>/
  seedtool.py run <ID>-<variant> [--tier quick] [--check CXX]
                                      apply the stored patch to /repo, run the check, revert
"""
import json, os, re, shutil, subprocess, sys, time

ENV = dict(os.environ, GOFLAGS="-mod=mod", GOPROXY="off", GOSUMDB="off", GOTOOLCHAIN="local")
B6 = "src/diagonal.works/b6"


def sh(cmd, cwd=None, timeout=1800):
    p = subprocess.run(cmd, shell=True, cwd=cwd, env=ENV, capture_output=True, text=True, timeout=timeout)
    return p.returncode, p.stdout + p.stderr


def suite(wt):
    base = json.load(open("/root/.vp/BASELINE.json"))
    want = set(base["stable_pass"])
    rc, out = sh("go test -json -vet=off -count=1 -timeout 25m ./... 2>/dev/null", cwd=os.path.join(wt, B6))
    passed = set()
    for line in out.splitlines():
        try:
            e = json.loads(line)
        except Exception:
            continue
        if e.get("Test") and e.get("Action") == "pass":
            passed.add(f"{e['Package']}::{e['Test']}")
    return sorted(want - passed)


def verify(pid, variant):
    src = f"/tmp/seed/out-{pid}/{variant}"
    meta = json.load(open(os.path.join(src, "meta.json")))
    demo = open(os.path.join(src, "demo_test.go")).read()
    demo_dir = meta.get("demo_dir", ".").strip("/")
    if demo_dir.startswith(B6):
        demo_dir = demo_dir[len(B6):].strip("/") or "."
    wt = f"/tmp/sv-{pid}{variant}"
    sh(f"git -C /repo worktree remove --force {wt}")
    rc, out = sh(f"git -C /repo worktree add -q --detach {wt} HEAD")
    assert rc == 0, out
    res = {}
    try:
        rc, out = sh(f"git apply --check {src}/patch.diff", cwd=wt)
        if rc != 0:
            print("PATCH DOES NOT APPLY to current /repo HEAD:\n", out)
            return 1
        dst_dir = os.path.join(wt, B6, demo_dir)
        dst = os.path.join(dst_dir, "zz_seed_demo_test.go")
        shutil.copy(os.path.join(src, "demo_test.go"), dst)
        m = re.search(r"-run[ =]+['\"]?([A-Za-z0-9_|^$().]+)", meta.get("demo_cmd", "") + " " + demo.splitlines()[0])
        run = m.group(1) if m else "."
        cmd = f"go test -vet=off -count=1 -run '{run}' ."
        rc0, out0 = sh(cmd, cwd=dst_dir)
        res["demo_without_patch"] = "pass" if rc0 == 0 else "FAIL"
        rc, out = sh(f"git apply {src}/patch.diff", cwd=wt)
        assert rc == 0, out
        rc1, out1 = sh(cmd, cwd=dst_dir)
        res["demo_with_patch"] = "fail" if rc1 != 0 else "PASS"
        if "build failed" in out1 or "cannot use" in out1:
            res["demo_with_patch"] += " (build failure?)"
        os.remove(dst)
        missing = suite(wt)
        res["suite_with_patch_missing"] = missing
        ok = rc0 == 0 and rc1 != 0 and not missing
        print(json.dumps(res, indent=1))
        if not ok:
            print(out0[-1500:])
            print(out1[-1500:])
            print("NOT CONFIRMED")
            return 1
        d = f"/verif/seeded/{pid}-{variant}"
        os.makedirs(d, exist_ok=True)
        shutil.copy(os.path.join(src, "patch.diff"), d)
        shutil.copy(os.path.join(src, "demo_test.go"), os.path.join(d, "demo_test.go.txt"))
        meta["confirmed_by_me"] = {
            "repo_head": sh("git -C /repo rev-parse --short HEAD")[1].strip(),
            "demo_cmd": f"(copy demo_test.go.txt to {B6}/{demo_dir}/zz_seed_demo_test.go) {cmd}",
            "demo_without_patch": "pass", "demo_with_patch": "fail",
            "suite_with_patch": "all 628 baseline tests pass",
            "demo_failure_excerpt": out1[-600:],
        }
        meta["breaks_property"] = pid.rstrip("x")
        json.dump(meta, open(os.path.join(d, "meta.json"), "w"), indent=1)
        print("CONFIRMED ->", d)
        return 0
    finally:
        sh(f"git -C /repo worktree remove --force {wt}")
        shutil.rmtree(wt, ignore_errors=True)


def run(name, tier, check):
    d = f"/verif/seeded/{name}"
    pid = check or name.split("-")[0].rstrip("x")
    rc, out = sh("git -C /repo status --porcelain")
    if out.strip():
        print("refusing: /repo has uncommitted changes\n" + out)
        return 2
    rc, out = sh(f"git -C /repo apply {d}/patch.diff")
    if rc != 0:
        print("patch does not apply:", out)
        return 2
    t0 = time.time()
    try:
        p = subprocess.run(f"python3 /verif/verif.py run {pid} --tier {tier}", shell=True, env=ENV,
                           capture_output=True, text=True)
    finally:
        sh("git -C /repo checkout -- . && git -C /repo clean -fdq src")
    detected = p.returncode == 1 and "VIOLATION property=" in p.stdout
    lines = [l for l in p.stdout.splitlines() if l.startswith(("VIOLATION", "---", "INCONCLUSIVE", "BUILD-FAILED"))]
    print(f"{name} check={pid} tier={tier} rc={p.returncode} detected={detected} wall={time.time()-t0:.0f}s")
    for l in lines[:6]:
        print("   ", l[:300])
    if not detected:
        print(p.stdout[-1500:])
    # evidence must not keep a mutant's results
    sh(f"git -C /verif checkout -- evidence/{pid}.json")
    rp = os.path.join(d, "detection.json")
    hist = json.load(open(rp)) if os.path.exists(rp) else []
    hist.append({"check": pid, "tier": tier, "exit": p.returncode, "detected": detected,
                 "verif_commit": sh("git -C /verif rev-parse --short HEAD")[1].strip(),
                 "first_lines": lines[:3]})
    json.dump(hist, open(rp, "w"), indent=1)
    return 0 if detected else 1


if __name__ == "__main__":
    if sys.argv[1] == "verify":
        sys.exit(verify(sys.argv[2], sys.argv[3]))
    if sys.argv[1] == "run":
        tier = "quick"
        check = None
        a = sys.argv[3:]
        while a:
            if a[0] == "--tier":
                tier = a[1]; a = a[2:]
            elif a[0] == "--check":
                check = a[1]; a = a[2:]
            else:
                a = a[1:]
        sys.exit(run(sys.argv[2], tier, check))
