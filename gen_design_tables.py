#!/usr/bin/env python3
"""Prints the markdown tables of DESIGN.md section 9 from known_findings.json,
checks.py and seeded/*/detection.json, so that they can be regenerated."""
import json, glob, os, sys
sys.path.insert(0, os.path.dirname(os.path.abspath(__file__)))
import checks

ROOT = os.path.dirname(os.path.abspath(__file__))
d = json.load(open(os.path.join(ROOT, "known_findings.json")))

def findings(status):
    out = []
    for f in d["findings"]:
        if f["status"] == status:
            out.append(f)
    return sorted(out, key=lambda f: (f["property"], f["id"]))

def table_checks():
    print("| id | package | quick (cases x shards) | thorough | extra |")
    print("|---|---|---|---|---|")
    for cid in sorted(checks.CHECKS):
        c = checks.CHECKS[cid]
        extra = ", ".join(k for k in ("race", "hang_violation") if c.get(k))
        print(f"| {cid} | harness/{c['pkg']} | {c['quick']['checks']} x {c['quick'].get('shards',1)} | {c['thorough']['checks']} x {c['thorough'].get('shards',1)} | {extra} |")

def table_fixed():
    print("| property | finding | commit | what failed |")
    print("|---|---|---|---|")
    for f in findings("fixed"):
        print(f"| {f['property']} | {f['id']} | {f.get('commit')} | {f['what']} |")

def table_known():
    print("| property | finding | what fails | how the check carries on |")
    print("|---|---|---|---|")
    how = {
        "C02-transitive-references": "the compact world's referrers must be a duplicate-free subset of the in-memory world's",
        "C02-traverse-closed-or-dropped-ways": "segments from the end nodes of closed ways, and next to ways dropped for missing nodes, are not compared",
        "C04-intersects-feature-across-layers": "overlay cases whose intersects-feature query names a feature that only the overlay holds are excluded (counted)",
        "C15-overlay-stale-base-referrers": "overlay results must lie between the model's referrers and reachability in the union of the base's and the overlay's reference graphs",
        "C17-reverse-references-across-files": "reverse reference queries on the merged world must return a subset of the single build's answer and never panic; everything else is compared exactly",
        "C18-strings-reinterpreted": "cases holding such a string are excluded (counted); one case in eight draws from them",
        "C18-null-like-strings": "cases holding \"~\" or \"null\" are excluded (counted)",
        "C18-traverse-after-tag-edits": "Traverse is left out of the comparison of the two worlds",
        "C20-latlng-span": "the spans of trees containing a lat/lng literal are not checked (their print/parse round trip is)",
        "C40-evaluate-not-atomic": "histories with a change computed from a read are excluded (counted) and the content of list-worlds responses is not compared",
    }
    for f in findings("known"):
        print(f"| {f['property']} | {f['id']} | {f['what']} | {how.get(f['id'], '')} |")

def table_seeds():
    print("| seeded change | breaks | detected by (quick unless said) | not detected by |")
    print("|---|---|---|---|")
    for p in sorted(glob.glob(os.path.join(ROOT, "seeded", "*"))):
        name = os.path.basename(p)
        dp = os.path.join(p, "detection.json")
        meta = json.load(open(os.path.join(p, "meta.json")))
        if not os.path.exists(dp):
            print(f"| {name} | {meta.get('breaks_property', name[:3])} | (superseded by an adapted variant: the patch no longer applies) | |")
            continue
        runs = json.load(open(dp))
        yes, no = {}, {}
        for r in runs:
            k = r.get("check") + ("" if r.get("tier") == "quick" else "/" + r.get("tier"))
            (yes if r.get("detected") else no).setdefault(k, 0)
            if r.get("detected"):
                yes[k] += 1
            else:
                no[k] += 1
        ys = ", ".join(f"{k} ({v}/{v + no.get(k, 0)} runs)" if no.get(k) else k for k, v in sorted(yes.items()))
        ns = ", ".join(k for k in sorted(no) if k not in yes)
        print(f"| {name} | {meta.get('breaks_property', name[:3])} | {ys} | {ns} |")

if __name__ == "__main__":
    which = sys.argv[1] if len(sys.argv) > 1 else "all"
    for name, f in (("checks", table_checks), ("fixed", table_fixed), ("known", table_known), ("seeds", table_seeds)):
        if which in ("all", name):
            print(f"\n<!-- {name} -->")
            f()
