"""Table of checks: package, budgets per tier, and the texts that go into MANIFEST.json.

quick budgets are sized to finish in roughly a minute including compilation;
thorough budgets are case counts (never per-case time limits) sharded over up
to 16 processes because rapid is single threaded.
"""

HOOK_COMMITS = ["5e4abd4", "3e24510", "f843198", "214368c"]

EXPL = "Generated-input search against an explicit oracle: holds on every generated case of the run (counts, class histogram and samples are in the evidence file); search never establishes absence of violations outside the generated sizes."

def C(pkg, quick, thorough, technique, note, level_text=EXPL, **kw):
    d = dict(pkg=pkg, quick=quick, thorough=thorough, technique=technique, level_note=note, level_text=level_text)
    d.update(kw)
    return d

CHECKS = {
    "C01": C("c01", dict(checks=30, shards=4, timeout=900), dict(checks=400, shards=16, timeout=6000),
             "property-based testing (rapid): generated valid feature sets round-tripped through the compact index builder and compared with the same set held in the plain in-memory world (reference model) and with the input itself",
             "Trusted: the in-memory (basic) world as a reference for how a feature reads back, and s2 for E7 conversion. Tag values are strings (the only non-geometry value kind the compact tag codec represents). Sizes are small: offset widths > 4 bytes and file/mmap outputs are not reached."),
    "C02": C("c02", dict(checks=25, shards=4, timeout=900), dict(checks=400, shards=16, timeout=6000),
             "property-based testing (rapid): differential between the compact world and the in-memory world built from the same generated OSM source, over a canonical snapshot of every read query",
             "Trusted: neither world; any disagreement is reported. Locations are compared at E7 (the in-memory world keeps the float it was given). Result order is compared for searches only; references, relations and areas are compared as sets (their order is map iteration order in the in-memory world)."),
    "C03": C("c03", dict(checks=500, shards=4, timeout=900), dict(checks=8000, shards=16, timeout=6000),
             "property-based testing (rapid): generated worlds of every implementation, edit histories and query trees; oracle: independent three-valued evaluation of the query over the model's current tags, plus order and uniqueness of the result",
             "Trusted: the evaluator in harness/c03 (Query.Matches is not used: Typed.Matches ignores its inner query). 'all' on a point that is or ever was untagged is Unknown (bare points are documented as not indexed). Tagged leaves use # keys, keyed leaves # and @ keys."),
    "C04": C("c04", dict(checks=400, shards=4, timeout=900), dict(checks=8000, shards=16, timeout=6000),
             "property-based testing (rapid): generated geometries and spatial queries; differential between the indexed search (FindFeatures) and brute-force evaluation of the query's own Matches over every enumerated feature",
             "Trusted: the query's Matches (its correctness is C05's subject) and EachFeature. All generated features are indexed (points carry a tag)."),
    "C05": C("c05", dict(checks=1500, shards=4, timeout=900), dict(checks=30000, shards=16, timeout=6000),
             "property-based testing (rapid): generated query regions and feature geometries; oracle: exact predicates written from s2 primitives independently of spatial.go, with a 1e-9 rad exclusion margin",
             "Trusted: s2's point-in-polygon, DistanceFromSegment and CrossingSign; the exclusion of pairs whose decisive margin is below 1e-9 rad (as the property states); for points against paths/polylines the implementation's 1 mm tolerance zone (0 < d <= 1e-8 rad) is excluded."),
    "C06": C("c06", dict(checks=5000, shards=2, timeout=300), dict(checks=50000, shards=16, timeout=3000),
             "property-based testing (rapid): generated indices, query trees and Next/Advance call scripts on three index back ends compared with a set-algebra denotation and a sorted-slice iterator model",
             "Trusted: the set denotation and position model in harness/c06. The empty intersection (which would denote the universe and indexes iterators[0]) is outside the domain; scripts stop at the first false result because behaviour after exhaustion differs between back ends and is unspecified."),
    "C07": C("c07", dict(checks=3000, shards=2, timeout=300), dict(checks=30000, shards=16, timeout=3000),
             "property-based testing (rapid), stateful: generated insert/delete/iterator histories on TreeIndex against a reference set, with the AVL invariant (hook VerifValidate) and full-scan equality checked after every step",
             "Trusted: the reference set and the iterator contract as stated in the property (deliberately weaker than exact in-order successor: a value inserted after the iterator was opened may or may not be returned). Uses hook TreeIndex.VerifValidate."),
    "C08": C("c08", dict(checks=3000, shards=2, timeout=300), dict(checks=20000, shards=16, timeout=3000),
             "property-based testing (rapid): generated ID lists and Next/Advance scripts on compact.Iterator compared with a sorted-slice + position reference model",
             "Trusted: the sorted-slice model; Advance targets are restricted to namespaces in the namespace table (NamespaceTable.Encode panics otherwise, as in every caller); after a failed Advance a positioned iterator is expected to be unmoved (asserted by the repository's own ValidatePostingListIteratorAdvanceBeyondEnd)."),
    "C09": C("c09", dict(checks=2000, shards=2, timeout=300), dict(checks=40000, shards=16, timeout=3000),
             "property-based testing (rapid): generated values, reservation/write orders and map layouts round-tripped through the encoding containers and compared with list/multiset reference models",
             "Trusted: the multiset model of the hash map (entries of one ID compared as a multiset, FindFirst = first entry written single-threaded); domain = tags < 2^tagBits, fixed widths >= Uint64Length(v)."),
    "C10": C("c10", dict(checks=30000, shards=1, timeout=300), dict(checks=400000, shards=16, timeout=3000),
             "property-based testing (rapid) plus structured enumeration: inverse(pack(x)) == x for every bit-packing, exhaustive where the domain is small",
             "Generated-input search, not the symbolic decision the property text asks for: a failure confined to a region neither the enumeration grid (single bits, all-ones prefixes, corners, every small domain completely) nor the boundary-biased random draws reach is missed. Uses hooks VerifBucketHeaderRoundTrip, VerifBucketBitsForCount, VerifTagBits, VerifZigzagEncode/Decode."),
    "C11": C("c11", dict(checks=6000, shards=2, timeout=300), dict(checks=60000, shards=16, timeout=3000),
             "property-based testing (rapid): round-trip (decode(encode(v)) == v and bytes read == bytes written) for every compact record codec, with generated primary namespaces and dirty decode targets",
             "Trusted: the normal-form comparison in harness/c11 (lists that Marshal sorts are compared sorted; nil and empty lists are equal). Values are within each codec's representable range (roles < 2^61, member types 0-3, namespaces < 8192, no reference with type+namespace 0)."),
    "C12": C("c12", dict(checks=300, shards=4, timeout=600), dict(checks=10000, shards=16, timeout=6000),
             "property-based testing (rapid), model-based: generated edit histories on MutableOverlayWorld compared step by step with a per-feature map of tags (lookup, Get, existence, ordered tag searches, enumeration)",
             "Trusted: the per-feature map model. Replacements keep geometry and new features are points or relations, so every AddFeature is valid (rejections are C13's subject). Tag values are strings; geometry tags are not edited."),
    "C13": C("c13", dict(checks=400, shards=4, timeout=600), dict(checks=6000, shards=16, timeout=6000),
             "property-based testing (rapid): generated histories ending in an invalid change; metamorphic oracle: a rejected call leaves the canonical snapshot of every read query unchanged",
             "Trusted: Observe (the snapshot of all read queries). Accepted attempts are not judged here (validity of accepted states is C37)."),
    "C14": C("c14", dict(checks=250, shards=4, timeout=600), dict(checks=5000, shards=16, timeout=6000),
             "property-based testing (rapid): generated edit histories with snapshots; invariant over the history: every snapshot's canonical observation stays equal to the one recorded when it was taken, and the live world reflects each edit",
             "Trusted: Observe (the snapshot of all read queries). Moves that the world rejects (they would invalidate a closed path) are skipped."),
    "C15": C("c15", dict(checks=500, shards=4, timeout=600), dict(checks=8000, shards=16, timeout=6000),
             "property-based testing (rapid): generated reference graphs and edit histories; oracle: reverse reachability over the model's current features with a visited set; termination by watchdog and crash capture",
             "Trusted: the reachability model. The chain the query defines is taken to be the transitive one the in-memory worlds implement (the compact world's direct-only answer is C02's subject).",
             hang_violation=True),
    "C16": C("c16", dict(checks=400, shards=4, timeout=900), dict(checks=6000, shards=16, timeout=6000),
             "property-based testing (rapid): generated pairs of layers with overlapping and disjoint IDs; oracle: map union with upper precedence for lookup, locations, enumeration and ordered searches",
             "Trusted: the union-with-precedence model, restricted to the queries the property lists. Upper layers are valid worlds on their own (paths bring copies of their points)."),
    "C27": C("c27", dict(checks=300, shards=4, timeout=900), dict(checks=4000, shards=16, timeout=6000),
             "property-based testing (rapid): round trip of generated element sequences through the PBF writer and reader, for 1-4 reader cores",
             "Trusted: the element model in harness/c27. Ways have at least one node. With several cores only per-goroutine order is defined (blocks are decoded concurrently)."),
    "C29": C("c29", dict(checks=150, shards=4, timeout=900), dict(checks=3000, shards=16, timeout=6000),
             "property-based testing (rapid): generated OSM data; oracle: an independent implementation of the stated mapping rules (reference model) compared through lookups and enumeration",
             "Trusted: the rules as transcribed in harness/c29 (including the searchable key table) and s2 loop orientation. Data has no missing way nodes (dropping invalid ways is C37's subject)."),
    "C31": C("c31", dict(checks=4000, shards=2, timeout=300), dict(checks=40000, shards=16, timeout=3000),
             "property-based testing (rapid): round trips of generated feature IDs through every encoding, and order laws on generated triples with a differential against the compact index order",
             "Trusted: encoders/decoders of encoding/json, gopkg.in/yaml.v2 and protobuf. IDs in the postcode and ONS alias namespaces are restricted to values the packers produce (other values have no alias form). Namespaces exclude control characters."),
    "C32": C("c32", dict(checks=2000, shards=2, timeout=600), dict(checks=30000, shards=16, timeout=6000),
             "property-based testing (rapid): round trip of generated GeoJSON geometries and collections, and a model-based check of the import (vertex cycles, containment probes, properties)",
             "Trusted: encoding/json and s2 containment. Multi-points and multi-line-strings have no b6 counterpart and are only round-tripped, not imported. Rings are closed (first == last) with >= 3 distinct vertices."),
    "C34": C("c34", dict(checks=5000, shards=2, timeout=300), dict(checks=50000, shards=16, timeout=3000),
             "property-based testing (rapid): differential against two recursive reference implementations plus validity predicates (first/last kept, subsequence)",
             "Trusted: the two recursive references (the repository's own via hook VerifReferenceDouglasPeuckerSimplify, and one in the harness using the same tie and split conventions). Finite coordinates, non-negative tolerance, at least 2 points."),
    "C36": C("c36", dict(checks=20, shards=4, timeout=900), dict(checks=300, shards=16, timeout=6000),
             "property-based testing (rapid): differential between builds of the same generated source with 1 and with 2-16 goroutines, over the canonical observation of every read query",
             "Trusted: Observe. Schedules are whatever the Go scheduler produces with the given goroutine counts, plus generated feed orders for feature sources; a divergence that needs a particular interleaving can be missed."),
    "C37": C("c37", dict(checks=250, shards=4, timeout=900), dict(checks=4000, shards=16, timeout=6000),
             "property-based testing (rapid): generated sources and edit histories containing invalid features; oracle: independent validity predicate over every feature enumerated from the resulting world",
             "Trusted: the validity rules written in harness/c37 (transcribed from the property statement) and s2's loop validation."),
    "C38": C("c38", dict(checks=1500, shards=2, timeout=600), dict(checks=20000, shards=16, timeout=6000),
             "property-based testing (rapid): generated mutation scripts applied to the caller's value (and to clones) after AddFeature; metamorphic oracle: the world's canonical observation and the other copy are unchanged",
             "Trusted: Observe and the render of feature values in harness/c38. Mutations go through the ingest feature API and exported fields (Members, Keys, Values); mutating the inner expression list of a path tag in place is not included."),
    "C39": C("c39", dict(checks=5000, shards=2, timeout=300), dict(checks=100000, shards=16, timeout=1800),
             "property-based testing (rapid): generated operation sequences on b6.Tags compared step by step with an ordered-list reference model; shrunk failing case saved as JSON replay",
             "Trusted: the ordered-list model in harness/c39; keys are distinct and non-empty as the property states; values are string expressions."),
}
