// C07: the AVL tree index stays a balanced sorted set across any edit history,
// and open iterators survive concurrent (interleaved) inserts and deletes.
package c07

import (
	"fmt"
	"sort"
	"testing"

	"diagonal.works/b6/search"
	"pgregory.net/rapid"
	"verif/vlib"
)

type intValues struct{}

func cmp(a, b int) search.Comparison {
	if a < b {
		return search.ComparisonLess
	} else if a > b {
		return search.ComparisonGreater
	}
	return search.ComparisonEqual
}
func (intValues) Compare(a search.Value, b search.Value) search.Comparison { return cmp(a.(int), b.(int)) }
func (intValues) CompareKey(v search.Value, k search.Key) search.Comparison {
	return cmp(v.(int), k.(int))
}
func (intValues) Key(v search.Value) search.Key { return v.(int) }

var tokens = []string{"t0", "t1", "t2"}

type Op struct {
	Kind  string `json:"op"` // insert, delete, open, next, advance
	Token int    `json:"token,omitempty"`
	Key   int    `json:"key,omitempty"`
	Iter  int    `json:"iter,omitempty"` // index into the list of open iterators (modulo)
}

type Case struct {
	Ops []Op `json:"ops"`
}

const keySpace = 40

func gen(t *rapid.T) Case {
	var c Case
	ntok := rapid.IntRange(1, 3).Draw(t, "ntokens")
	// a prefix of inserts so that trees have some depth
	pre := rapid.IntRange(0, 25).Draw(t, "prefill")
	for i := 0; i < pre; i++ {
		c.Ops = append(c.Ops, Op{Kind: "insert", Token: rapid.IntRange(0, ntok-1).Draw(t, "token"), Key: rapid.IntRange(0, keySpace).Draw(t, "key")})
	}
	n := rapid.IntRange(1, 60).Draw(t, "nops")
	for i := 0; i < n; i++ {
		op := Op{Token: rapid.IntRange(0, ntok-1).Draw(t, "token"), Key: rapid.IntRange(0, keySpace).Draw(t, "key"), Iter: rapid.IntRange(0, 7).Draw(t, "iter")}
		switch rapid.IntRange(0, 13).Draw(t, "kind") {
		case 12, 13:
			op.Kind = "delcur" // delete the value iterator Iter currently sits on
		case 0, 1, 2:
			op.Kind = "insert"
		case 3, 4, 5:
			op.Kind = "delete"
		case 6:
			op.Kind = "open"
		case 7, 8, 9:
			op.Kind = "next"
		default:
			op.Kind = "advance"
		}
		c.Ops = append(c.Ops, op)
	}
	return c
}

type iterState struct {
	it      search.Iterator
	token   int
	started bool
	last    int          // last returned value (valid if started)
	since   map[int]bool // values present continuously since the iterator was opened
	done    bool
	onDeleted bool
}

func sortedKeys(m map[int]bool) []int {
	out := make([]int, 0, len(m))
	for k := range m {
		out = append(out, k)
	}
	sort.Ints(out)
	return out
}

func check(c Case) vlib.Outcome {
	index := search.NewTreeIndex(intValues{})
	model := []map[int]bool{{}, {}, {}}
	added := map[int]bool{} // tokens that have a list
	var iters []*iterState
	out := vlib.Outcome{}
	bigDelete, stepAfterCurrentDeleted := false, false

	for oi, op := range c.Ops {
		if op.Token < 0 || op.Token >= len(tokens) || op.Key < 0 || op.Key > keySpace || op.Iter < 0 {
			return vlib.Outcome{Skip: true}
		}
		what := fmt.Sprintf("op %d %s(token %d, key %d, iter %d)", oi, op.Kind, op.Token, op.Key, op.Iter)
		if op.Kind == "delcur" {
			if len(iters) == 0 {
				continue
			}
			is := iters[op.Iter%len(iters)]
			if !is.started || is.done {
				continue
			}
			op = Op{Kind: "delete", Token: is.token, Key: is.last, Iter: op.Iter}
		}
		switch op.Kind {
		case "insert":
			index.Add(op.Key, []string{tokens[op.Token]})
			model[op.Token][op.Key] = true
			added[op.Token] = true
		case "delete":
			if model[op.Token][op.Key] && len(model[op.Token]) >= 4 {
				bigDelete = true
			}
			index.Remove(op.Key, []string{tokens[op.Token]})
			delete(model[op.Token], op.Key)
			for _, is := range iters {
				if is.token == op.Token {
					delete(is.since, op.Key)
					if is.started && !is.done && is.last == op.Key {
						is.onDeleted = true
					}
				}
			}
		case "open":
			if len(iters) >= 8 {
				continue
			}
			since := map[int]bool{}
			for k := range model[op.Token] {
				since[k] = true
			}
			iters = append(iters, &iterState{it: index.Begin(tokens[op.Token]), token: op.Token, since: since})
		case "next", "advance":
			if len(iters) == 0 {
				continue
			}
			is := iters[op.Iter%len(iters)]
			if is.done {
				continue
			}
			if !added[is.token] {
				// Begin on a token without a list returned the empty iterator; it stays empty.
				if is.it.Next() {
					return vlib.Fail("%s: iterator opened on a token without values returned %v", what, is.it.Value())
				}
				is.done = true
				continue
			}
			if is.onDeleted {
				stepAfterCurrentDeleted = true
			}
			set := model[is.token]
			var got bool
			lower := -1 // exclusive lower bound for candidates
			if op.Kind == "next" {
				got = is.it.Next()
				if is.started {
					lower = is.last
				}
			} else {
				got = is.it.Advance(op.Key)
				lower = op.Key - 1
				if is.started && is.last-1 > lower {
					lower = is.last - 1 // may stay on the current value...
					if !set[is.last] {
						lower = is.last // ...unless it was deleted
					}
				}
			}
			// the smallest value that was present throughout and is a legal answer
			mustNotSkip := -1
			for _, w := range sortedKeys(is.since) {
				if w > lower {
					mustNotSkip = w
					break
				}
			}
			if !got {
				if mustNotSkip >= 0 {
					return vlib.Fail("%s: returned false but %d was present throughout the iterator's life and lies after its position (last=%d started=%v); set %v", what, mustNotSkip, is.last, is.started, sortedKeys(set))
				}
				is.done = true
				continue
			}
			v, ok := is.it.Value().(int)
			if !ok {
				return vlib.Fail("%s: Value() = %v after a true result", what, is.it.Value())
			}
			if !set[v] {
				return vlib.Fail("%s: returned %d which is not in the set %v (deleted values must never be returned)", what, v, sortedKeys(set))
			}
			if v <= lower {
				return vlib.Fail("%s: returned %d, which is not after the iterator's position (last=%d, started=%v); order or no-repeat violated", what, v, is.last, is.started)
			}
			if mustNotSkip >= 0 && v > mustNotSkip {
				return vlib.Fail("%s: returned %d, skipping %d which was present throughout (last=%d started=%v); set %v", what, v, mustNotSkip, is.last, is.started, sortedKeys(set))
			}
			is.started, is.last, is.onDeleted = true, v, false
		default:
			return vlib.Outcome{Skip: true}
		}
		// invariants after every step
		if err := index.VerifValidate(); err != nil {
			return vlib.Fail("after %s: not a valid AVL tree: %v", what, err)
		}
		ntok := 0
		for ti := range tokens {
			if !added[ti] {
				continue
			}
			ntok++
			want := sortedKeys(model[ti])
			it := index.Begin(tokens[ti])
			for i, w := range want {
				if !it.Next() {
					return vlib.Fail("after %s: scan of token %d stops after %d of %v", what, ti, i, want)
				}
				if it.Value().(int) != w {
					return vlib.Fail("after %s: scan of token %d: element %d is %v, reference set %v", what, ti, i, it.Value(), want)
				}
			}
			if it.Next() {
				return vlib.Fail("after %s: scan of token %d yields extra %v beyond %v", what, ti, it.Value(), want)
			}
		}
		_ = ntok // NumTokens()/EstimateLength() are estimates (the list length counter misses the root insert); not part of C07
	}
	var listed []string
	ti := index.Tokens()
	for ti.Next() {
		listed = append(listed, ti.Token())
	}
	var wantTokens []string
	for i := range tokens {
		if added[i] {
			wantTokens = append(wantTokens, tokens[i])
		}
	}
	if fmt.Sprint(listed) != fmt.Sprint(wantTokens) {
		return vlib.Fail("Tokens() = %v, tokens added %v", listed, wantTokens)
	}
	out.NonTrivial = bigDelete && stepAfterCurrentDeleted
	if bigDelete {
		out.Classes = append(out.Classes, "delete-from-set>=4")
	}
	if stepAfterCurrentDeleted {
		out.Classes = append(out.Classes, "iterator-step-after-its-current-value-was-deleted")
	}
	return out
}

func TestProp(t *testing.T) {
	vlib.Run(t, vlib.Config{ID: "C07", Name: "avl-history",
		Rule: "histories of 0-25 prefill inserts then 1-60 operations (insert, delete present/absent, open iterator, iterator Next, iterator Advance(k)) over keys 0..40 and 1-3 tokens on search.TreeIndex; after every step the hook VerifValidate checks AVL balance fields, parent links and ordering and a full scan of every token equals the reference set; open iterators are checked against the property's contract (result in current set, after the position, never skipping a value present throughout); non-trivial = a delete from a set of >= 4 values and an iterator step after its current value was deleted"},
		gen, check)
}
