// C03: tag search returns exactly the matching features in ID order.
package c03

import (
	"sort"
	"strings"
	"testing"

	"diagonal.works/b6"
	"diagonal.works/b6/ingest"
	"diagonal.works/b6/ingest/compact"
	"pgregory.net/rapid"
	"verif/vlib"
	"verif/wm"
)

type Q struct {
	Op       string `json:"op"` // all, tagged, keyed, typed, and, or
	Key      string `json:"key,omitempty"`
	Val      string `json:"val,omitempty"`
	Type     int    `json:"type,omitempty"`
	Children []Q    `json:"children,omitempty"`
}

type Edit struct {
	Kind   string    `json:"op"` // addtag, removetag, retag, newpoint, newrelation
	Target int       `json:"target"`
	Key    string    `json:"key,omitempty"`
	Val    string    `json:"val,omitempty"`
	Tags   []wm.TagS `json:"tags,omitempty"`
}

type Case struct {
	Set     wm.Set        `json:"set"`
	World   string        `json:"world"`
	Upper   []wm.FeatureS `json:"upper,omitempty"` // overlayworld / compact-merged: features of the other layers/files
	Files   int           `json:"files,omitempty"`
	Edits   []Edit        `json:"edits,omitempty"`
	Queries []Q           `json:"queries"`
}

var searchKeys = []string{"#amenity", "#highway", "#k", "#k2", "@wikidata", "@ref"}
var plainKeys = []string{"name"}
var values = []string{"cafe", "yes", "v1", "a b"}
var worlds = []string{"basic", "mutable", "overlay-basic", "overlay-basic", "overlay-compact", "overlayworld", "compact", "compact-merged"}

func allKeys() []string { return append(append([]string{}, searchKeys...), plainKeys...) }

func genTags(t *rapid.T, label string, max int) []wm.TagS {
	n := rapid.IntRange(0, max).Draw(t, label+"n")
	ks := rapid.SliceOfNDistinct(rapid.SampledFrom(allKeys()), n, n, rapid.ID[string]).Draw(t, label+"keys")
	out := []wm.TagS{}
	for _, k := range ks {
		out = append(out, wm.TagS{K: k, V: rapid.SampledFrom(values).Draw(t, label+"v")})
	}
	return out
}

func genQ(t *rapid.T, depth int) Q {
	max := 6
	if depth <= 0 {
		max = 3
	}
	switch rapid.IntRange(0, max).Draw(t, "qop") {
	case 0:
		if rapid.IntRange(0, 3).Draw(t, "all") == 0 {
			return Q{Op: "all"}
		}
		fallthrough
	case 1:
		return Q{Op: "tagged", Key: rapid.SampledFrom([]string{"#amenity", "#highway", "#k", "#k2", "#absent"}).Draw(t, "key"), Val: rapid.SampledFrom(append(values, "absent")).Draw(t, "val")}
	case 2, 3:
		return Q{Op: "keyed", Key: rapid.SampledFrom(append(searchKeys, "#absent", "@absent")).Draw(t, "key")}
	case 4:
		return Q{Op: "typed", Type: rapid.IntRange(0, 3).Draw(t, "type"), Children: []Q{genQ(t, depth-1)}}
	case 5:
		n := rapid.IntRange(1, 3).Draw(t, "nand")
		q := Q{Op: "and"}
		for i := 0; i < n; i++ {
			q.Children = append(q.Children, genQ(t, depth-1))
		}
		return q
	default:
		n := rapid.IntRange(0, 3).Draw(t, "nor")
		q := Q{Op: "or"}
		for i := 0; i < n; i++ {
			q.Children = append(q.Children, genQ(t, depth-1))
		}
		return q
	}
}

func gen(t *rapid.T) Case {
	c := Case{
		Set: wm.GenSet(t, wm.GenConfig{MaxPoints: 6, MaxPaths: 3, MaxLoops: 2, MaxAreas: 2, MaxRelations: 3,
			Namespaces: []string{string(b6.NamespaceOSMNode), string(b6.NamespaceOSMWay), string(b6.NamespaceOSMRelation)},
			TagKeys:    allKeys(), TagValues: values}),
		World: rapid.SampledFrom(worlds).Draw(t, "world"),
	}
	switch c.World {
	case "overlayworld", "compact-merged":
		c.Files = rapid.IntRange(1, 2).Draw(t, "files")
		n := rapid.IntRange(1, 6).Draw(t, "nupper")
		for i := 0; i < n; i++ {
			var f wm.FeatureS
			if c.World == "overlayworld" && rapid.Bool().Draw(t, "shadow") {
				// a different version of an existing point or relation
				base := c.Set.Features[rapid.IntRange(0, len(c.Set.Features)-1).Draw(t, "shadowed")]
				if ty := base.ID.ID().Type; ty != b6.FeatureTypePoint && ty != b6.FeatureTypeRelation {
					continue
				}
				f = base.Clone()
				f.Members = nil
				f.Tags = genTags(t, "shadowtags", 3)
			} else {
				ns := rapid.SampledFrom([]string{string(b6.NamespaceOSMNode), "diagonal.works/ns/other"}).Draw(t, "upperns")
				ll := wm.LL{Lat: 515600000 + int32(i*977), Lng: -1300000 + int32(i*1013)}
				f = wm.FeatureS{ID: wm.FID{T: 0, NS: ns, V: uint64(500 + i)}, Point: &ll, Tags: genTags(t, "uppertags", 3)}
				if rapid.IntRange(0, 3).Draw(t, "upperrel") == 0 {
					f = wm.FeatureS{ID: wm.FID{T: 3, NS: string(b6.NamespaceOSMRelation), V: uint64(500 + i)}, Tags: genTags(t, "uppertags", 3)}
				}
			}
			c.Upper = append(c.Upper, f)
		}
	case "mutable", "overlay-basic", "overlay-compact":
		n := rapid.IntRange(0, 15).Draw(t, "nedits")
		for i := 0; i < n; i++ {
			e := Edit{Target: rapid.IntRange(0, 40).Draw(t, "target")}
			switch rapid.IntRange(0, 8).Draw(t, "kind") {
			case 0, 1, 2:
				e.Kind, e.Key, e.Val = "addtag", rapid.SampledFrom(allKeys()).Draw(t, "key"), rapid.SampledFrom(values).Draw(t, "val")
			case 3, 4, 5:
				e.Kind, e.Key = "removetag", rapid.SampledFrom(allKeys()).Draw(t, "key")
			case 6:
				e.Kind, e.Tags = "retag", genTags(t, "retag", 3)
			case 7:
				e.Kind, e.Tags = "newpoint", genTags(t, "newtags", 3)
			default:
				e.Kind, e.Tags = "newrelation", genTags(t, "newtags", 3)
			}
			c.Edits = append(c.Edits, e)
		}
	}
	nq := rapid.IntRange(1, 6).Draw(t, "nqueries")
	for i := 0; i < nq; i++ {
		c.Queries = append(c.Queries, genQ(t, 3))
	}
	return c
}

type tri int

const (
	no tri = iota
	unknown
	yes
)

type mfeature struct {
	id       b6.FeatureID
	tags     map[string]string
	everBare bool // a point that had no tags besides its location at some time: not reliably under "all"
}

func eval(q Q, f *mfeature) (tri, bool) {
	switch q.Op {
	case "all":
		if f.id.Type == b6.FeatureTypePoint && (f.everBare || len(f.tags) == 0) {
			return unknown, true
		}
		return yes, true
	case "tagged":
		if !strings.HasPrefix(q.Key, "#") {
			return no, false
		}
		if v, ok := f.tags[q.Key]; ok && v == q.Val {
			return yes, true
		}
		return no, true
	case "keyed":
		if !strings.HasPrefix(q.Key, "#") && !strings.HasPrefix(q.Key, "@") {
			return no, false
		}
		if _, ok := f.tags[q.Key]; ok {
			return yes, true
		}
		return no, true
	case "typed":
		if len(q.Children) != 1 || q.Type < 0 || q.Type > 3 {
			return no, false
		}
		v, ok := eval(q.Children[0], f)
		if !ok {
			return no, false
		}
		if wm.Types[q.Type] != f.id.Type {
			return no, true
		}
		return v, true
	case "and":
		if len(q.Children) == 0 {
			return no, false
		}
		r := yes
		for _, ch := range q.Children {
			v, ok := eval(ch, f)
			if !ok {
				return no, false
			}
			if v < r {
				r = v
			}
		}
		return r, true
	case "or":
		r := no
		for _, ch := range q.Children {
			v, ok := eval(ch, f)
			if !ok {
				return no, false
			}
			if v > r {
				r = v
			}
		}
		return r, true
	}
	return no, false
}

func build(q Q) b6.Query {
	switch q.Op {
	case "all":
		return b6.All{}
	case "tagged":
		return b6.Tagged{Key: q.Key, Value: b6.NewStringExpression(q.Val)}
	case "keyed":
		return b6.Keyed{Key: q.Key}
	case "typed":
		return b6.Typed{Type: wm.Types[q.Type], Query: build(q.Children[0])}
	case "and":
		out := b6.Intersection{}
		for _, ch := range q.Children {
			out = append(out, build(ch))
		}
		return out
	default:
		out := b6.Union{}
		for _, ch := range q.Children {
			out = append(out, build(ch))
		}
		return out
	}
}

func depthOf(q Q) (int, bool) {
	d, leaf := 0, q.Op == "tagged" || q.Op == "keyed"
	for _, ch := range q.Children {
		cd, cl := depthOf(ch)
		if cd+1 > d {
			d = cd + 1
		}
		leaf = leaf || cl
	}
	return d, leaf
}

func check(c Case) vlib.Outcome {
	if len(c.Set.Features) == 0 || len(c.Queries) == 0 {
		return vlib.Outcome{Skip: true}
	}
	model := map[b6.FeatureID]*mfeature{}
	var order []b6.FeatureID
	put := func(f wm.FeatureS) {
		tags := map[string]string{}
		for _, t := range f.Tags {
			tags[t.K] = t.V
		}
		id := f.ID.ID()
		if _, ok := model[id]; !ok {
			order = append(order, id)
		}
		model[id] = &mfeature{id: id, tags: tags, everBare: id.Type == b6.FeatureTypePoint && len(tags) == 0}
	}
	for _, f := range c.Set.Features {
		put(f)
	}
	if _, err := wm.BuildBasic(c.Set.Features, 1, true); err != nil {
		return vlib.Outcome{Skip: true, Classes: []string{"skipped:set-not-valid"}}
	}
	var w b6.World
	history := false
	switch c.World {
	case "basic":
		w, _ = wm.BuildBasic(c.Set.Features, 1, true)
	case "compact":
		cw, err := wm.BuildCompact(c.Set.Features, 1)
		if err != nil {
			return vlib.Fail("compact build failed: %v", err)
		}
		w = cw
	case "compact-merged":
		cw := compact.NewWorld()
		files := [][]wm.FeatureS{c.Set.Features}
		for i := 0; i < c.Files; i++ {
			files = append(files, nil)
		}
		for i, f := range c.Upper {
			if _, dup := model[f.ID.ID()]; dup {
				continue
			}
			files[1+i%c.Files] = append(files[1+i%c.Files], f)
			put(f)
		}
		for _, fs := range files {
			if len(fs) == 0 {
				continue
			}
			data, err := wm.BuildCompactData(fs, 1)
			if err != nil {
				return vlib.Fail("compact build failed: %v", err)
			}
			if err := cw.Merge(data); err != nil {
				return vlib.Fail("Merge failed: %v", err)
			}
		}
		history = len(files) > 1
		w = cw
	case "overlayworld":
		base, _ := wm.BuildBasic(c.Set.Features, 1, true)
		seen := map[b6.FeatureID]bool{}
		var upper []wm.FeatureS
		for _, f := range c.Upper {
			if seen[f.ID.ID()] {
				continue
			}
			seen[f.ID.ID()] = true
			upper = append(upper, f)
		}
		up, err := wm.BuildBasic(upper, 1, true)
		if err != nil {
			return vlib.Outcome{Skip: true, Classes: []string{"skipped:upper-not-valid"}}
		}
		for _, f := range upper {
			put(f)
		}
		history = len(upper) > 0
		w = ingest.NewOverlayWorld(up, base)
	case "mutable", "overlay-basic", "overlay-compact":
		var m ingest.MutableWorld
		switch c.World {
		case "mutable":
			mw, err := wm.BuildMutable(c.Set.Features)
			if err != nil {
				return vlib.Outcome{Skip: true, Classes: []string{"skipped:set-not-valid"}}
			}
			m = mw
		case "overlay-basic":
			base, _ := wm.BuildBasic(c.Set.Features, 1, true)
			m = ingest.NewMutableOverlayWorld(base)
		default:
			base, err := wm.BuildCompact(c.Set.Features, 1)
			if err != nil {
				return vlib.Fail("compact build failed: %v", err)
			}
			m = ingest.NewMutableOverlayWorld(base)
		}
		specs := map[b6.FeatureID]wm.FeatureS{}
		for _, f := range c.Set.Features {
			specs[f.ID.ID()] = f
		}
		nextNew := 0
		for i, e := range c.Edits {
			if e.Target < 0 {
				return vlib.Outcome{Skip: true}
			}
			id := order[e.Target%len(order)]
			var err error
			switch e.Kind {
			case "addtag":
				err = m.AddTag(id, b6.Tag{Key: e.Key, Value: b6.NewStringExpression(e.Val)})
				model[id].tags[e.Key] = e.Val
			case "removetag":
				err = m.RemoveTag(id, e.Key)
				delete(model[id].tags, e.Key)
				if id.Type == b6.FeatureTypePoint && len(model[id].tags) == 0 {
					model[id].everBare = true
				}
			case "retag":
				spec := specs[id].Clone()
				spec.Tags = e.Tags
				err = m.AddFeature(wm.ToIngest(spec))
				ever := model[id].everBare
				delete(model, id)
				for j, o := range order {
					if o == id {
						order = append(order[:j], order[j+1:]...)
						break
					}
				}
				put(spec)
				model[id].everBare = model[id].everBare || ever
				specs[id] = spec
			case "newpoint", "newrelation":
				nextNew++
				ll := wm.LL{Lat: 515700000 + int32(nextNew*977), Lng: -1300000 + int32(nextNew*1013)}
				spec := wm.FeatureS{ID: wm.FID{T: 0, NS: "diagonal.works/ns/new", V: uint64(nextNew)}, Point: &ll, Tags: e.Tags}
				if e.Kind == "newrelation" {
					spec = wm.FeatureS{ID: wm.FID{T: 3, NS: "diagonal.works/ns/new", V: uint64(nextNew)}, Tags: e.Tags}
				}
				err = m.AddFeature(wm.ToIngest(spec))
				put(spec)
				specs[spec.ID.ID()] = spec
			default:
				return vlib.Outcome{Skip: true}
			}
			if err != nil {
				return vlib.Fail("edit %d (%s on %v) failed: %v", i, e.Kind, id, err)
			}
			for _, t := range e.Tags {
				if t.K == "" || t.K == b6.PointTag || t.K == b6.PathTag {
					return vlib.Outcome{Skip: true}
				}
			}
			history = true
		}
		w = m
	default:
		return vlib.Outcome{Skip: true}
	}

	sorted := append([]b6.FeatureID{}, order...)
	sort.Slice(sorted, func(i, j int) bool { return sorted[i].Less(sorted[j]) })
	out := vlib.Outcome{Classes: []string{"world=" + c.World}}
	for qi, q := range c.Queries {
		want := map[b6.FeatureID]tri{}
		matches := 0
		for _, id := range sorted {
			v, ok := eval(q, model[id])
			if !ok {
				return vlib.Outcome{Skip: true}
			}
			want[id] = v
			if v == yes {
				matches++
			}
		}
		bq := build(q)
		fs := w.FindFeatures(bq)
		var got []b6.FeatureID
		for fs.Next() {
			got = append(got, fs.FeatureID())
		}
		seen := map[b6.FeatureID]bool{}
		for i, id := range got {
			if i > 0 && !got[i-1].Less(id) {
				return vlib.Fail("%s world: query %d %s: results not in strictly increasing ID order: %v then %v (all: %v)", c.World, qi, bq, got[i-1], id, got)
			}
			v, known := want[id]
			if !known {
				return vlib.Fail("%s world: query %d %s returns %v, which is not a feature of the world", c.World, qi, bq, id)
			}
			if v == no {
				return vlib.Fail("%s world: query %d %s returns %v whose current tags %v do not satisfy it (all results %v)", c.World, qi, bq, id, model[id].tags, got)
			}
			seen[id] = true
		}
		for _, id := range sorted {
			if want[id] == yes && !seen[id] {
				return vlib.Fail("%s world: query %d %s misses %v whose current tags %v satisfy it (results %v)", c.World, qi, bq, id, model[id].tags, got)
			}
		}
		d, leaf := depthOf(q)
		if leaf && matches >= 2 && (d >= 2 || history) {
			out.NonTrivial = true
		}
	}
	return out
}

func TestProp(t *testing.T) {
	vlib.Run(t, vlib.Config{ID: "C03", Name: "tag-search", CaseTimeout: 120e9,
		Rule: "a generated valid set with tags from pools of #, @ and plain keys, held in a basic world, a BasicMutableWorld or MutableOverlayWorld (over basic or compact) after 0-15 edits (AddTag, RemoveTag, AddFeature replacing tags, new points and relations), an OverlayWorld whose upper layer shadows base points/relations with other tags, a compact world, or a compact world merged from 2-3 index files (shared and distinct namespaces); 1-6 query trees of depth <= 3 over all / tagged(#k=v) / keyed(#k, @k) / typed / and(1-3) / or(0-3) with present and absent keys and values; oracle: independent three-valued evaluation over the model's current tags (all on a point that is or ever was untagged is Unknown: such points are documented as not indexed): every True is returned, no False is returned, each once, in strictly increasing FeatureID order; non-trivial = a query with a tagged/keyed leaf and >= 2 matches that has depth >= 2 or runs on a world with history"},
		gen, check)
}
