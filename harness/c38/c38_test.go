// C38: callers' feature values are isolated from the world.
package c38

import (
	"fmt"
	"strings"
	"testing"

	"diagonal.works/b6"
	"diagonal.works/b6/ingest"
	"github.com/golang/geo/s2"
	"pgregory.net/rapid"
	"verif/vlib"
	"verif/wm"
)

type Mut struct {
	Op  string `json:"op"`
	Key string `json:"key,omitempty"`
	Val string `json:"val,omitempty"`
	I   int    `json:"i,omitempty"`
	J   int    `json:"j,omitempty"`
}

type Case struct {
	Kind      string `json:"kind"`  // point, path, area-paths, area-latlng, relation, collection
	World     string `json:"world"` // mutable, overlay
	Replace   bool   `json:"replace"`
	FirstTags int    `json:"first_tags"` // tags of the version that is replaced (0-2)
	Tags      int    `json:"tags"`       // tags of the caller's value (0-3)
	Muts      []Mut  `json:"mutations"`
}

var keys = []string{"name", "#amenity", "k0", "@wikidata"}
var vals = []string{"cafe", "yes", "changed"}

var tagOps = []string{"addtag", "settag", "removetag", "removetags", "removealltags", "settags", "setid"}
var kindOps = map[string][]string{
	"area-paths":  {"setpathid", "setpathids", "setpolygon"},
	"area-latlng": {"setpolygon", "setpathids"},
	"relation":    {"member-assign", "member-append"},
	"collection":  {"key-assign", "value-assign", "coll-append"},
}

func gen(t *rapid.T) Case {
	c := Case{
		Kind:      rapid.SampledFrom([]string{"point", "path", "area-paths", "area-paths", "area-latlng", "relation", "relation", "collection", "collection"}).Draw(t, "kind"),
		World:     rapid.SampledFrom([]string{"mutable", "overlay"}).Draw(t, "world"),
		Replace:   rapid.Bool().Draw(t, "replace"),
		FirstTags: rapid.IntRange(0, 2).Draw(t, "firsttags"),
		Tags:      rapid.IntRange(0, 3).Draw(t, "tags"),
	}
	n := rapid.IntRange(1, 6).Draw(t, "nmuts")
	for i := 0; i < n; i++ {
		ops := tagOps
		if extra := kindOps[c.Kind]; len(extra) > 0 && rapid.Bool().Draw(t, "kindop") {
			ops = extra
		}
		c.Muts = append(c.Muts, Mut{Op: rapid.SampledFrom(ops).Draw(t, "op"), Key: rapid.SampledFrom(keys).Draw(t, "key"), Val: rapid.SampledFrom(vals).Draw(t, "val"),
			I: rapid.IntRange(0, 3).Draw(t, "i"), J: rapid.IntRange(0, 2).Draw(t, "j")})
	}
	return c
}

func fid(t int, ns b6.Namespace, v uint64) wm.FID { return wm.FID{T: t, NS: string(ns), V: v} }

// support: points 1-6, two closed paths (10 over 1,2,3; 11 over 4,5,6), an open path 12.
func support() []wm.FeatureS {
	pts := []wm.LL{{515350000, -1247000}, {515352598, -1251499}, {515347402, -1251500}, {515450000, -1247000}, {515452598, -1251499}, {515447402, -1251500}}
	var fs []wm.FeatureS
	for i, ll := range pts {
		ll := ll
		fs = append(fs, wm.FeatureS{ID: fid(0, b6.NamespaceOSMNode, uint64(i+1)), Point: &ll})
	}
	ref := func(v uint64) wm.PathEl { id := fid(0, b6.NamespaceOSMNode, v); return wm.PathEl{Ref: &id} }
	fs = append(fs,
		wm.FeatureS{ID: fid(1, b6.NamespaceOSMWay, 10), Path: []wm.PathEl{ref(1), ref(2), ref(3), ref(1)}},
		wm.FeatureS{ID: fid(1, b6.NamespaceOSMWay, 11), Path: []wm.PathEl{ref(4), ref(5), ref(6), ref(4)}},
		wm.FeatureS{ID: fid(1, b6.NamespaceOSMWay, 12), Path: []wm.PathEl{ref(1), ref(4)}},
	)
	return fs
}

func tagsN(n int, variant string) []wm.TagS {
	var out []wm.TagS
	for i := 0; i < n && i < len(keys); i++ {
		out = append(out, wm.TagS{K: keys[i], V: variant})
	}
	return out
}

func subject(c Case, tags []wm.TagS) wm.FeatureS {
	ref := func(v uint64) wm.PathEl { id := fid(0, b6.NamespaceOSMNode, v); return wm.PathEl{Ref: &id} }
	path10, path11 := fid(1, b6.NamespaceOSMWay, 10), fid(1, b6.NamespaceOSMWay, 11)
	switch c.Kind {
	case "point":
		return wm.FeatureS{ID: fid(0, b6.NamespaceOSMNode, 50), Point: &wm.LL{Lat: 515360000, Lng: -1260000}, Tags: tags}
	case "path":
		return wm.FeatureS{ID: fid(1, b6.NamespaceOSMWay, 50), Path: []wm.PathEl{ref(2), ref(5), ref(6)}, Tags: tags}
	case "area-paths":
		return wm.FeatureS{ID: fid(2, b6.NamespaceOSMWay, 50), Polys: []wm.PolyS{{Paths: []wm.FID{path10}}, {Paths: []wm.FID{path11}}}, Tags: tags}
	case "area-latlng":
		return wm.FeatureS{ID: fid(2, b6.NamespaceOSMWay, 50), Polys: []wm.PolyS{{Loops: [][]wm.LL{{{515550000, -1247000}, {515552598, -1251499}, {515547402, -1251500}}}}, {Paths: []wm.FID{path10}}}, Tags: tags}
	case "relation":
		return wm.FeatureS{ID: fid(3, b6.NamespaceOSMRelation, 50), Members: []wm.MemberS{{ID: path10, Role: "a"}, {ID: fid(0, b6.NamespaceOSMNode, 1), Role: "b"}}, Tags: tags}
	case "collection":
		one, two := 1, 2
		p1, p2 := fid(0, b6.NamespaceOSMNode, 1), fid(0, b6.NamespaceOSMNode, 2)
		return wm.FeatureS{ID: fid(4, "diagonal.works/ns/test", 50), Keys: []wm.CollEl{{ID: &p1}, {ID: &p2}}, Values: []wm.CollEl{{Int: &one}, {Int: &two}}, Tags: tags}
	}
	return wm.FeatureS{}
}

// apply mutates the caller's value f through the ingest feature API.
func apply(f ingest.Feature, m Mut) {
	other := b6.FeatureID{Type: b6.FeatureTypePath, Namespace: b6.NamespaceOSMWay, Value: 11}
	switch m.Op {
	case "addtag":
		f.AddTag(b6.Tag{Key: m.Key + "-added", Value: b6.NewStringExpression(m.Val)})
	case "settag":
		f.ModifyOrAddTag(b6.Tag{Key: m.Key, Value: b6.NewStringExpression(m.Val)})
	case "removetag":
		f.RemoveTag(m.Key)
	case "removetags":
		f.RemoveTags([]string{m.Key, keys[m.I%len(keys)]})
	case "removealltags":
		f.RemoveAllTags()
	case "settags":
		f.SetTags([]b6.Tag{{Key: "only", Value: b6.NewStringExpression(m.Val)}})
	case "setid":
		id := f.FeatureID()
		id.Value += 1000
		f.SetFeatureID(id)
	case "setpathid":
		if a, ok := f.(*ingest.AreaFeature); ok && a.Len() > 0 {
			a.SetPathID(m.I%a.Len(), m.J%2, other)
		}
	case "setpathids":
		if a, ok := f.(*ingest.AreaFeature); ok && a.Len() > 0 {
			a.SetPathIDs(m.I%a.Len(), []b6.FeatureID{other})
		}
	case "setpolygon":
		if a, ok := f.(*ingest.AreaFeature); ok && a.Len() > 0 {
			loop := s2.LoopFromPoints([]s2.Point{wm.LL{Lat: 100000000, Lng: 100000000}.Point(), wm.LL{Lat: 100000000, Lng: 110000000}.Point(), wm.LL{Lat: 110000000, Lng: 105000000}.Point()})
			a.SetPolygon(m.I%a.Len(), s2.PolygonFromLoops([]*s2.Loop{loop}))
		}
	case "member-assign":
		if r, ok := f.(*ingest.RelationFeature); ok && len(r.Members) > 0 {
			r.Members[m.I%len(r.Members)] = b6.RelationMember{ID: other, Role: "mutated"}
		}
	case "member-append":
		if r, ok := f.(*ingest.RelationFeature); ok {
			r.Members = append(r.Members, b6.RelationMember{ID: other, Role: "appended"})
		}
	case "key-assign":
		if c, ok := f.(*ingest.CollectionFeature); ok && len(c.Keys) > 0 {
			c.Keys[m.I%len(c.Keys)] = other
		}
	case "value-assign":
		if c, ok := f.(*ingest.CollectionFeature); ok && len(c.Values) > 0 {
			c.Values[m.I%len(c.Values)] = 99
		}
	case "coll-append":
		if c, ok := f.(*ingest.CollectionFeature); ok {
			c.Keys = append(c.Keys, other)
			c.Values = append(c.Values, 77)
		}
	}
}

// render lists everything the feature value itself holds.
func render(f ingest.Feature) string {
	var b strings.Builder
	fmt.Fprintf(&b, "%v %s", f.FeatureID(), wm.TagsString(f.AllTags()))
	switch x := f.(type) {
	case *ingest.AreaFeature:
		for i := 0; i < x.Len(); i++ {
			if ids, ok := x.PathIDs(i); ok {
				fmt.Fprintf(&b, " paths%d=%v", i, ids)
			}
			if p, ok := x.Polygon(i); ok {
				fmt.Fprintf(&b, " poly%d=%d loops %v", i, p.NumLoops(), p.Loop(0).Vertex(0))
			}
		}
	case *ingest.RelationFeature:
		fmt.Fprintf(&b, " members=%v", x.Members)
	case *ingest.CollectionFeature:
		fmt.Fprintf(&b, " keys=%v values=%v", x.Keys, x.Values)
	}
	return b.String()
}

func check(c Case) vlib.Outcome {
	spec := subject(c, tagsN(c.Tags, "caller"))
	if spec.ID.NS == "" {
		return vlib.Outcome{Skip: true}
	}
	var w ingest.MutableWorld
	switch c.World {
	case "mutable":
		m, err := wm.BuildMutable(support())
		if err != nil {
			return vlib.Fail("support world: %v", err)
		}
		w = m
	case "overlay":
		base, err := wm.BuildBasic(support(), 1, true)
		if err != nil {
			return vlib.Fail("support world: %v", err)
		}
		w = ingest.NewMutableOverlayWorld(base)
	default:
		return vlib.Outcome{Skip: true}
	}
	if c.Replace {
		first := subject(c, tagsN(c.FirstTags, "first"))
		if err := w.AddFeature(wm.ToIngest(first)); err != nil {
			return vlib.Fail("adding the first version failed: %v", err)
		}
	}
	f := wm.ToIngest(spec)
	if err := w.AddFeature(f); err != nil {
		return vlib.Fail("AddFeature(%v) failed: %v", spec.ID.ID(), err)
	}
	probes := []b6.FeatureID{spec.ID.ID()}
	for _, s := range support() {
		probes = append(probes, s.ID.ID())
	}
	queries := []b6.Query{b6.All{}, b6.Keyed{Key: "#amenity"}, b6.Keyed{Key: "@wikidata"}}
	before := wm.Observe(w, probes, queries, wm.ObserveOptions{})
	for i, m := range c.Muts {
		apply(f, m)
		after := wm.Observe(w, probes, queries, wm.ObserveOptions{})
		if d := wm.Diff(before, after, "before", "after "); d != "" {
			return vlib.Fail("after adding %v to a %s world (replace=%v), mutation %d (%s) of the caller's value changed what the world returns:\n%s", spec.ID.ID(), c.World, c.Replace, i, m.Op, d)
		}
	}
	// clones are independent of their originals, both ways
	g := wm.ToIngest(spec)
	clone := g.Clone()
	gBefore, cBefore := render(g), render(clone)
	if gBefore != cBefore {
		return vlib.Fail("clone differs from its original: %s vs %s", cBefore, gBefore)
	}
	for i, m := range c.Muts {
		apply(clone, m)
		if now := render(g); now != gBefore {
			return vlib.Fail("mutation %d (%s) of a clone changed the original: %s -> %s", i, m.Op, gBefore, now)
		}
	}
	clone2 := g.Clone()
	c2Before := render(clone2)
	for i, m := range c.Muts {
		apply(g, m)
		if now := render(clone2); now != c2Before {
			return vlib.Fail("mutation %d (%s) of the original changed its clone: %s -> %s", i, m.Op, c2Before, now)
		}
	}
	kindSpecific := false
	for _, m := range c.Muts {
		for _, k := range kindOps[c.Kind] {
			if m.Op == k {
				kindSpecific = true
			}
		}
	}
	return vlib.Outcome{NonTrivial: kindSpecific || c.Replace, Classes: []string{"kind=" + c.Kind, "world=" + c.World, fmt.Sprintf("replace=%v", c.Replace)}}
}

func TestProp(t *testing.T) {
	vlib.Run(t, vlib.Config{ID: "C38", Name: "isolation",
		Rule: "one feature of each kind (point, path, area over paths, area with a lat/lng polygon, relation, collection) with 0-3 tags added to a BasicMutableWorld or a MutableOverlayWorld over a basic base, either as a new feature or replacing an earlier version with 0-2 tags; then 1-6 mutations of the caller's value through the ingest feature API (AddTag, ModifyOrAddTag, RemoveTag(s), RemoveAllTags, SetTags, SetFeatureID, SetPathID(s), SetPolygon, assigning and appending relation members, assigning and appending collection keys/values); oracle: the canonical observation of the world is unchanged after each mutation; and a clone is unaffected by mutations of its original and vice versa; non-trivial = a kind-specific mutation or the replace path"},
		gen, check)
}
