// Package lang holds what the language-level checks (C21, C22) share: a
// JSON-able program representation, a typed generator, a harness function
// library for the VM, and a direct reference interpreter.
package lang

import (
	"context"
	"errors"
	"fmt"
	"reflect"
	"strings"

	"diagonal.works/b6"
	"diagonal.works/b6/api"
	"pgregory.net/rapid"
)

// E is a program: an integer literal, a symbol (a lambda parameter or a
// library function), a lambda or a call.
type E struct {
	K         string   `json:"k"` // int sym lam call
	I         int      `json:"i,omitempty"`
	Name      string   `json:"name,omitempty"`
	Params    []string `json:"params,omitempty"`
	Body      *E       `json:"body,omitempty"`
	Fn        *E       `json:"fn,omitempty"`
	Args      []E      `json:"args,omitempty"`
	Pipelined bool     `json:"pipelined,omitempty"`
}

func Int(i int) E                { return E{K: "int", I: i} }
func Sym(s string) E             { return E{K: "sym", Name: s} }
func Lam(ps []string, b E) E     { return E{K: "lam", Params: ps, Body: &b} }
func Call(f E, args ...E) E      { return E{K: "call", Fn: &f, Args: args} }
func Pipe(lhs E, rhs E) E        { return E{K: "call", Fn: &rhs, Args: []E{lhs}, Pipelined: true} }
func CallSym(s string, a ...E) E { return Call(Sym(s), a...) }

func (e E) String() string {
	switch e.K {
	case "int":
		return fmt.Sprint(e.I)
	case "sym":
		return e.Name
	case "lam":
		if e.Body == nil {
			return "{?}"
		}
		return "{" + strings.Join(e.Params, ", ") + " -> " + e.Body.String() + "}"
	case "call":
		if e.Fn == nil {
			return "(?)"
		}
		parts := []string{e.Fn.String()}
		for _, a := range e.Args {
			parts = append(parts, a.String())
		}
		if e.Pipelined && len(e.Args) == 1 {
			return "(" + e.Args[0].String() + " | " + e.Fn.String() + ")"
		}
		return "(" + strings.Join(parts, " ") + ")"
	}
	return "?"
}

// Valid reports whether e is structurally complete, and its size.
func (e E) Valid() (bool, int) {
	n := 1
	switch e.K {
	case "int":
	case "sym":
		if e.Name == "" {
			return false, n
		}
	case "lam":
		if e.Body == nil {
			return false, n
		}
		for _, p := range e.Params {
			if p == "" {
				return false, n
			}
			if _, ok := Library[p]; ok {
				return false, n // a parameter named like a library function resolves differently by position
			}
		}
		ok, m := e.Body.Valid()
		return ok, n + m
	case "call":
		if e.Fn == nil {
			return false, n
		}
		ok, m := e.Fn.Valid()
		if !ok {
			return false, n
		}
		n += m
		for _, a := range e.Args {
			ok, m := a.Valid()
			if !ok {
				return false, n
			}
			n += m
		}
	default:
		return false, n
	}
	return true, n
}

func (e E) Build() b6.Expression {
	switch e.K {
	case "int":
		return b6.NewIntExpression(e.I)
	case "sym":
		return b6.NewSymbolExpression(e.Name)
	case "lam":
		return b6.NewLambdaExpression(append([]string{}, e.Params...), e.Body.Build())
	}
	args := make([]b6.Expression, len(e.Args))
	for i, a := range e.Args {
		args[i] = a.Build()
	}
	return b6.Expression{AnyExpression: b6.CallExpression{Function: e.Fn.Build(), Args: args, Pipelined: e.Pipelined}}
}

// ---------------------------------------------------------------------------
// the library

type P struct{ A, B int }

type Fn1 = func(*api.Context, int) (int, error)
type Fn2 = func(*api.Context, int, int) (int, error)

var ErrDivide = errors.New("divide by zero")

// Library is the function library given to the VM. Every function is pure.
var Library = api.FunctionSymbols{
	"add":  func(c *api.Context, a int, b int) (int, error) { return a + b, nil },
	"sub":  func(c *api.Context, a int, b int) (int, error) { return a - b, nil },
	"mul":  func(c *api.Context, a int, b int) (int, error) { return a * b, nil },
	"neg":  func(c *api.Context, a int) (int, error) { return -a, nil },
	"sub3": func(c *api.Context, a int, b int, d int) (int, error) { return a - 2*b - 3*d, nil },
	"div": func(c *api.Context, a int, b int) (int, error) {
		if b == 0 {
			return 0, ErrDivide
		}
		return a / b, nil
	},
	"sum": func(c *api.Context, xs ...int) (int, error) {
		t := 0
		for _, x := range xs {
			t += x
		}
		return t, nil
	},
	"pair":   func(c *api.Context, a int, b int) (P, error) { return P{a, b}, nil },
	"first":  func(c *api.Context, p P) (int, error) { return p.A, nil },
	"second": func(c *api.Context, p P) (int, error) { return p.B, nil },
	"apply":  func(c *api.Context, f Fn1, x int) (int, error) { return f(c, x) },
	"apply2": func(c *api.Context, f Fn2, x int, y int) (int, error) { return f(c, x, y) },
	"applyto": func(c *api.Context, x int, y int, f Fn1) (int, error) {
		r, err := f(c, x)
		if err != nil {
			return 0, err
		}
		return r - 3*y, nil
	},
	"twice": func(c *api.Context, f Fn1, x int) (int, error) {
		y, err := f(c, x)
		if err != nil {
			return 0, err
		}
		return f(c, y)
	},
	"compose": func(c *api.Context, f Fn1, g Fn1) (Fn1, error) {
		return func(c *api.Context, x int) (int, error) {
			y, err := f(c, x)
			if err != nil {
				return 0, err
			}
			return g(c, y)
		}, nil
	},
}

func toInt(r interface{}, err error) (int, error) {
	if err != nil {
		return 0, err
	}
	if i, ok := r.(int); ok {
		return i, nil
	}
	return 0, fmt.Errorf("expected an int result, found %T", r)
}

var Adaptors = api.Adaptors{
	Functions: map[reflect.Type]func(api.Callable) reflect.Value{
		reflect.TypeOf(Fn1(nil)): func(c api.Callable) reflect.Value {
			return reflect.ValueOf(Fn1(func(ctx *api.Context, x int) (int, error) { return toInt(api.Call1(ctx, x, c)) }))
		},
		reflect.TypeOf(Fn2(nil)): func(c api.Callable) reflect.Value {
			return reflect.ValueOf(Fn2(func(ctx *api.Context, x int, y int) (int, error) { return toInt(api.Call2(ctx, x, y, c)) }))
		},
	},
	Collections: map[reflect.Type]func(b6.UntypedCollection) reflect.Value{},
}

func NewContext() *api.Context {
	return &api.Context{FunctionSymbols: Library, Adaptors: Adaptors, Context: context.Background()}
}

// ---------------------------------------------------------------------------
// the reference interpreter

type Value interface{}

type closure struct {
	params []string
	body   *E
	env    *env
}

type native struct {
	name  string
	arity int
	// variadic functions count their variadic parameter as one, but are
	// called with however many arguments there are
	variadic bool
	f        func(in *Interp, args []Value) (Value, error)
}

// partial is a function applied to too few arguments: they are bound to its
// trailing parameters, and the arguments of later calls go first.
type partial struct {
	f     Value
	bound []Value
}

type env struct {
	name string
	v    Value
	next *env
}

func (e *env) lookup(s string) (Value, bool) {
	for ; e != nil; e = e.next {
		if e.name == s {
			return e.v, true
		}
	}
	return nil, false
}

type Interp struct {
	Steps int
	// classes of what the program did
	OverApplied, CalledNonFunction, TypeError, PartialOfPartial, PartialLambda, Shadowed, ClosureCapture bool
}

var ErrTooLong = errors.New("too many steps")

func arity(v Value) (int, bool) {
	switch f := v.(type) {
	case *closure:
		return len(f.params), true
	case *native:
		return f.arity, true
	case *partial:
		n, _ := arity(f.f)
		return n - len(f.bound), true
	}
	return 0, false
}

func (in *Interp) Apply(f Value, args []Value) (Value, error) {
	in.Steps++
	if in.Steps > 100000 {
		return nil, ErrTooLong
	}
	n, ok := arity(f)
	if !ok {
		in.CalledNonFunction = true
		return nil, fmt.Errorf("can't call a %T", f)
	}
	if nf, ok := f.(*native); ok && nf.variadic {
		return nf.f(in, args)
	}
	switch {
	case len(args) > n:
		in.OverApplied = true
		return nil, fmt.Errorf("expected at most %d arguments, found %d", n, len(args))
	case len(args) < n:
		switch f.(type) {
		case *partial:
			in.PartialOfPartial = true
		case *closure:
			in.PartialLambda = true
		}
		return &partial{f: f, bound: args}, nil
	}
	switch f := f.(type) {
	case *closure:
		e := f.env
		for i, p := range f.params {
			e = &env{name: p, v: args[i], next: e}
		}
		return in.Eval(f.body, e)
	case *native:
		return f.f(in, args)
	case *partial:
		return in.Apply(f.f, append(append([]Value{}, args...), f.bound...))
	}
	panic("unreachable")
}

func (in *Interp) wantInt(v Value) (int, error) {
	if i, ok := v.(int); ok {
		return i, nil
	}
	in.TypeError = true
	return 0, fmt.Errorf("expected an int, found %T", v)
}

func (in *Interp) wantFn(v Value, n int) error {
	if a, ok := arity(v); !ok || a != n {
		in.TypeError = true
		return fmt.Errorf("expected a function of %d arguments, found %T", n, v)
	}
	return nil
}

func (in *Interp) callInt(f Value, args ...Value) (int, error) {
	r, err := in.Apply(f, args)
	if err != nil {
		return 0, err
	}
	return in.wantInt(r)
}

func ints(in *Interp, args []Value) ([]int, error) {
	out := make([]int, len(args))
	for i, a := range args {
		v, err := in.wantInt(a)
		if err != nil {
			return nil, err
		}
		out[i] = v
	}
	return out, nil
}

func intFn(name string, n int, f func(a []int) (Value, error)) *native {
	return &native{name: name, arity: n, f: func(in *Interp, args []Value) (Value, error) {
		a, err := ints(in, args)
		if err != nil {
			return nil, err
		}
		return f(a)
	}}
}

var natives = map[string]*native{}

func init() {
	for _, n := range []*native{
		intFn("add", 2, func(a []int) (Value, error) { return a[0] + a[1], nil }),
		intFn("sub", 2, func(a []int) (Value, error) { return a[0] - a[1], nil }),
		intFn("mul", 2, func(a []int) (Value, error) { return a[0] * a[1], nil }),
		intFn("neg", 1, func(a []int) (Value, error) { return -a[0], nil }),
		intFn("sub3", 3, func(a []int) (Value, error) { return a[0] - 2*a[1] - 3*a[2], nil }),
		intFn("div", 2, func(a []int) (Value, error) {
			if a[1] == 0 {
				return nil, ErrDivide
			}
			return a[0] / a[1], nil
		}),
		{name: "sum", arity: 1, variadic: true, f: func(in *Interp, args []Value) (Value, error) {
			xs, err := ints(in, args)
			if err != nil {
				return nil, err
			}
			t := 0
			for _, x := range xs {
				t += x
			}
			return t, nil
		}},
		intFn("pair", 2, func(a []int) (Value, error) { return P{a[0], a[1]}, nil }),
		{name: "first", arity: 1, f: func(in *Interp, args []Value) (Value, error) {
			if p, ok := args[0].(P); ok {
				return p.A, nil
			}
			in.TypeError = true
			return nil, fmt.Errorf("expected a pair")
		}},
		{name: "second", arity: 1, f: func(in *Interp, args []Value) (Value, error) {
			if p, ok := args[0].(P); ok {
				return p.B, nil
			}
			in.TypeError = true
			return nil, fmt.Errorf("expected a pair")
		}},
		{name: "apply", arity: 2, f: func(in *Interp, args []Value) (Value, error) {
			if err := in.wantFn(args[0], 1); err != nil {
				return nil, err
			}
			x, err := in.wantInt(args[1])
			if err != nil {
				return nil, err
			}
			return in.callInt(args[0], x)
		}},
		{name: "apply2", arity: 3, f: func(in *Interp, args []Value) (Value, error) {
			if err := in.wantFn(args[0], 2); err != nil {
				return nil, err
			}
			xy, err := ints(in, args[1:])
			if err != nil {
				return nil, err
			}
			return in.callInt(args[0], xy[0], xy[1])
		}},
		{name: "applyto", arity: 3, f: func(in *Interp, args []Value) (Value, error) {
			xy, err := ints(in, args[:2])
			if err != nil {
				return nil, err
			}
			if err := in.wantFn(args[2], 1); err != nil {
				return nil, err
			}
			r, err := in.callInt(args[2], xy[0])
			if err != nil {
				return nil, err
			}
			return r - 3*xy[1], nil
		}},
		{name: "twice", arity: 2, f: func(in *Interp, args []Value) (Value, error) {
			if err := in.wantFn(args[0], 1); err != nil {
				return nil, err
			}
			x, err := in.wantInt(args[1])
			if err != nil {
				return nil, err
			}
			y, err := in.callInt(args[0], x)
			if err != nil {
				return nil, err
			}
			return in.callInt(args[0], y)
		}},
		{name: "compose", arity: 2, f: func(in *Interp, args []Value) (Value, error) {
			for _, a := range args {
				if err := in.wantFn(a, 1); err != nil {
					return nil, err
				}
			}
			f, g := args[0], args[1]
			return &native{name: "composed", arity: 1, f: func(in *Interp, args []Value) (Value, error) {
				x, err := in.wantInt(args[0])
				if err != nil {
					return nil, err
				}
				y, err := in.callInt(f, x)
				if err != nil {
					return nil, err
				}
				return in.callInt(g, y)
			}}, nil
		}},
	} {
		natives[n.name] = n
	}
}

// Static reports what the VM's compiler rejects before running anything: a
// symbol that is neither a parameter in scope nor a library function, and a
// call whose function is a symbol that isn't a library function.
func Static(e *E, scope []string) error {
	switch e.K {
	case "sym":
		for _, s := range scope {
			if s == e.Name {
				return nil
			}
		}
		if _, ok := natives[e.Name]; !ok {
			return fmt.Errorf("undefined symbol %q", e.Name)
		}
	case "lam":
		return Static(e.Body, append(append([]string{}, scope...), e.Params...))
	case "call":
		for i := range e.Args {
			if err := Static(&e.Args[i], scope); err != nil {
				return err
			}
		}
		switch e.Fn.K {
		case "sym":
			if _, ok := natives[e.Fn.Name]; !ok {
				return fmt.Errorf("undefined function %q", e.Fn.Name)
			}
		case "int":
			return fmt.Errorf("can't call an int")
		default:
			return Static(e.Fn, scope)
		}
	}
	return nil
}

func (in *Interp) Eval(e *E, env *env) (Value, error) {
	in.Steps++
	if in.Steps > 100000 {
		return nil, ErrTooLong
	}
	switch e.K {
	case "int":
		return e.I, nil
	case "sym":
		if v, ok := env.lookup(e.Name); ok {
			return v, nil
		}
		if n, ok := natives[e.Name]; ok {
			return n, nil
		}
		return nil, fmt.Errorf("undefined symbol %q", e.Name)
	case "lam":
		for _, p := range e.Params {
			if _, ok := env.lookup(p); ok {
				in.Shadowed = true
			}
		}
		if env != nil {
			in.ClosureCapture = true
		}
		return &closure{params: e.Params, body: e.Body, env: env}, nil
	case "call":
		args := make([]Value, len(e.Args))
		for i := range e.Args {
			v, err := in.Eval(&e.Args[i], env)
			if err != nil {
				return nil, err
			}
			args[i] = v
		}
		var f Value
		if e.Fn.K == "sym" {
			n, ok := natives[e.Fn.Name]
			if !ok {
				return nil, fmt.Errorf("undefined function %q", e.Fn.Name)
			}
			f = n
		} else {
			var err error
			if f, err = in.Eval(e.Fn, env); err != nil {
				return nil, err
			}
		}
		return in.Apply(f, args)
	}
	return nil, fmt.Errorf("bad expression")
}

// ---------------------------------------------------------------------------
// the generator: type directed, so that most programs evaluate to a value

type typ int

const (
	tInt typ = iota
	tPair
	tFn1
	tFn2
)

type binding struct {
	name string
	t    typ
}

var paramNames = []string{"a", "b", "x"}

type Gen struct {
	// IllFormed allows the labelled ill-formed classes: over-application and calling a non-function.
	IllFormed bool
	// Eta adds lambdas whose body is a call starting with (some of) their own
	// parameters, the shape Simplify rewrites.
	Eta bool
}

// eta generates a lambda of n parameters whose body is a call of a library
// function with the parameters used in order, out of order, twice or not at all.
func (g Gen) eta(t *rapid.T, scope []binding, n int, depth int) E {
	k := func() E { return g.Expr(t, scope, tInt, 0) }
	a, b, x := Sym("a"), Sym("b"), Sym("x")
	op := rapid.SampledFrom([]string{"add", "sub", "div", "mul"}).Draw(t, "etaop")
	if n == 1 {
		shapes := []E{
			Lam([]string{"a"}, CallSym(op, a, k())),
			Lam([]string{"a"}, CallSym(op, a, a)),
			Lam([]string{"a"}, CallSym(op, k(), a)),
			Lam([]string{"a"}, CallSym(op, a, CallSym("neg", a))),
			Lam([]string{"a"}, CallSym("neg", a)),
			Lam([]string{"a"}, CallSym("sub3", a, k(), a)),
			Lam([]string{"a"}, CallSym("sub3", a, k(), k())),
			Lam([]string{"a"}, CallSym(op, a, CallSym("div", k(), k()))),
			Lam([]string{"a"}, CallSym(op, a, CallSym(op, k(), k()))),
			Lam([]string{"a"}, Call(CallSym(op, a), a)),
			Lam([]string{"a"}, CallSym("apply", Lam([]string{"b"}, CallSym(op, b, a)), a)),
		}
		if depth > 0 {
			shapes = append(shapes, Lam([]string{"a"}, CallSym(op, a, g.Expr(t, append(append([]binding{}, scope...), binding{"a", tInt}), tInt, depth-1))))
		}
		return shapes[rapid.IntRange(0, len(shapes)-1).Draw(t, "eta1")]
	}
	shapes := []E{
		Lam([]string{"a", "b"}, CallSym(op, a, b)),
		Lam([]string{"a", "b"}, CallSym(op, b, a)),
		Lam([]string{"a", "b"}, CallSym(op, a, a)),
		Lam([]string{"a", "b"}, CallSym("sub3", a, b, k())),
		Lam([]string{"a", "b"}, CallSym("sub3", a, b, b)),
		Lam([]string{"a", "b"}, CallSym("sub3", a, k(), b)),
		Lam([]string{"a", "b"}, CallSym("neg", a)),
		Lam([]string{"a", "b"}, CallSym(op, a)),
		Lam([]string{"a", "b"}, CallSym(op, a, k())),
		// the arguments after the leading parameters hold a lambda that rebinds one parameter and uses the other
		Lam([]string{"a", "b"}, CallSym("sub3", a, b, CallSym("apply", Lam([]string{"a"}, CallSym(op, b, a)), k()))),
		Lam([]string{"a", "b"}, CallSym("sub3", a, b, CallSym("apply", Lam([]string{"b"}, CallSym(op, a, b)), k()))),
		Lam([]string{"a", "b"}, CallSym("sub3", a, b, CallSym("apply", Lam([]string{"a"}, CallSym(op, a, k())), k()))),
		// and the lambda is itself the argument that remains
		Lam([]string{"a", "b"}, CallSym("applyto", a, b, Lam([]string{"a"}, CallSym(op, b, a)))),
		Lam([]string{"a", "b"}, CallSym("applyto", a, b, Lam([]string{"b"}, CallSym(op, a, b)))),
		Lam([]string{"a", "b"}, CallSym("applyto", a, b, Lam([]string{"x"}, CallSym(op, x, k())))),
		Lam([]string{"a", "b"}, CallSym("applyto", a, b, Sym("neg"))),
	}
	if depth > 0 {
		inner := append(append([]binding{}, scope...), binding{"a", tInt}, binding{"b", tInt})
		shapes = append(shapes, Lam([]string{"a", "b"}, CallSym("sub3", a, b, g.Expr(t, inner, tInt, depth-1))))
	}
	return shapes[rapid.IntRange(0, len(shapes)-1).Draw(t, "eta2")]
}

func (g Gen) vars(scope []binding, t typ) []string {
	seen := map[string]bool{}
	var out []string
	for i := len(scope) - 1; i >= 0; i-- {
		if !seen[scope[i].name] {
			seen[scope[i].name] = true
			if scope[i].t == t {
				out = append(out, scope[i].name)
			}
		}
	}
	return out
}

func (g Gen) lambda(t *rapid.T, scope []binding, params []typ, depth int) E {
	var names []string
	inner := append([]binding{}, scope...)
	for _, pt := range params {
		n := rapid.SampledFrom(paramNames).Draw(t, "param")
		for _, m := range names {
			if m == n {
				n = n + "2"
			}
		}
		names = append(names, n)
		inner = append(inner, binding{n, pt})
	}
	return Lam(names, g.Expr(t, inner, tInt, depth-1))
}

func (g Gen) Expr(t *rapid.T, scope []binding, want typ, depth int) E {
	switch want {
	case tPair:
		return CallSym("pair", g.Expr(t, scope, tInt, depth-1), g.Expr(t, scope, tInt, depth-1))
	case tFn1:
		if g.Eta && rapid.IntRange(0, 2).Draw(t, "eta") == 0 {
			return g.eta(t, scope, 1, depth)
		}
		opts := []string{"lam", "neg", "partial"}
		if depth > 0 {
			opts = append(opts, "lam", "compose", "partial-lam", "partial-partial", "returned", "zero-args")
		}
		if len(g.vars(scope, tFn1)) > 0 {
			opts = append(opts, "var", "var")
		}
		switch rapid.SampledFrom(opts).Draw(t, "fn1") {
		case "var":
			return Sym(rapid.SampledFrom(g.vars(scope, tFn1)).Draw(t, "var"))
		case "neg":
			return Sym("neg")
		case "partial":
			return CallSym(rapid.SampledFrom([]string{"add", "sub", "mul", "div"}).Draw(t, "op"), g.Expr(t, scope, tInt, depth-1))
		case "compose":
			return CallSym("compose", g.Expr(t, scope, tFn1, depth-1), g.Expr(t, scope, tFn1, depth-1))
		case "partial-lam": // a lambda of two parameters applied to one argument
			return Call(g.lambda(t, scope, []typ{tInt, tInt}, depth), g.Expr(t, scope, tInt, depth-1))
		case "partial-partial": // sub3 applied to one argument, and then to another
			return Call(CallSym("sub3", g.Expr(t, scope, tInt, depth-1)), g.Expr(t, scope, tInt, depth-1))
		case "returned": // a lambda returning a lambda that uses the outer parameter
			outer := rapid.SampledFrom(paramNames).Draw(t, "outer")
			inner := g.lambda(t, append(append([]binding{}, scope...), binding{outer, tInt}), []typ{tInt}, depth)
			return Call(Lam([]string{outer}, inner), g.Expr(t, scope, tInt, depth-1))
		case "zero-args": // a function called without arguments is that function
			return CallSym("neg")
		}
		return g.lambda(t, scope, []typ{tInt}, depth)
	case tFn2:
		if g.Eta && rapid.IntRange(0, 2).Draw(t, "eta") == 0 {
			return g.eta(t, scope, 2, depth)
		}
		opts := []string{"lam", "sym"}
		if len(g.vars(scope, tFn2)) > 0 {
			opts = append(opts, "var")
		}
		if depth > 0 {
			opts = append(opts, "partial3")
		}
		switch rapid.SampledFrom(opts).Draw(t, "fn2") {
		case "var":
			return Sym(rapid.SampledFrom(g.vars(scope, tFn2)).Draw(t, "var"))
		case "sym":
			return Sym(rapid.SampledFrom([]string{"add", "sub", "mul", "div"}).Draw(t, "op"))
		case "partial3":
			return CallSym("sub3", g.Expr(t, scope, tInt, depth-1))
		}
		return g.lambda(t, scope, []typ{tInt, tInt}, depth)
	}
	// an int
	opts := []string{"lit", "lit"}
	if len(g.vars(scope, tInt)) > 0 {
		opts = append(opts, "var", "var", "var")
	}
	if depth > 0 {
		opts = append(opts, "op", "op", "op", "neg", "sum", "pairpart", "apply", "apply2", "twice", "applyto", "call-lam", "call-lam", "call-fn", "call-fn", "pipe", "pipe", "lam-fn-arg")
		if g.IllFormed {
			opts = append(opts, "over", "nonfn")
		}
	}
	switch rapid.SampledFrom(opts).Draw(t, "int") {
	case "var":
		return Sym(rapid.SampledFrom(g.vars(scope, tInt)).Draw(t, "var"))
	case "op":
		return CallSym(rapid.SampledFrom([]string{"add", "sub", "sub", "mul", "div"}).Draw(t, "op"), g.Expr(t, scope, tInt, depth-1), g.Expr(t, scope, tInt, depth-1))
	case "neg":
		return CallSym("neg", g.Expr(t, scope, tInt, depth-1))
	case "sum": // a variadic function, with any number of arguments
		args := make([]E, rapid.IntRange(0, 3).Draw(t, "nsum"))
		for i := range args {
			args[i] = g.Expr(t, scope, tInt, depth-1)
		}
		return CallSym("sum", args...)
	case "pairpart":
		return CallSym(rapid.SampledFrom([]string{"first", "second"}).Draw(t, "part"), g.Expr(t, scope, tPair, depth-1))
	case "apply":
		return CallSym("apply", g.Expr(t, scope, tFn1, depth-1), g.Expr(t, scope, tInt, depth-1))
	case "apply2":
		return CallSym("apply2", g.Expr(t, scope, tFn2, depth-1), g.Expr(t, scope, tInt, depth-1), g.Expr(t, scope, tInt, depth-1))
	case "twice":
		return CallSym("twice", g.Expr(t, scope, tFn1, depth-1), g.Expr(t, scope, tInt, depth-1))
	case "applyto":
		return CallSym("applyto", g.Expr(t, scope, tInt, depth-1), g.Expr(t, scope, tInt, depth-1), g.Expr(t, scope, tFn1, depth-1))
	case "call-lam": // a lambda literal applied directly
		n := rapid.IntRange(0, 2).Draw(t, "nparams")
		args := make([]E, n)
		for i := range args {
			args[i] = g.Expr(t, scope, tInt, depth-1)
		}
		return Call(g.lambda(t, scope, make([]typ, n), depth), args...)
	case "call-fn": // a call whose function is itself a call
		f := g.Expr(t, scope, tFn1, depth-1)
		if f.K != "call" {
			f = CallSym("compose", f, Sym("neg"))
		}
		return Call(f, g.Expr(t, scope, tInt, depth-1))
	case "pipe":
		return Pipe(g.Expr(t, scope, tInt, depth-1), g.Expr(t, scope, tFn1, depth-1))
	case "lam-fn-arg": // a lambda taking a function, applied directly to one
		fname := rapid.SampledFrom([]string{"f", "g"}).Draw(t, "fname")
		inner := append(append([]binding{}, scope...), binding{fname, tFn1})
		return Call(Lam([]string{fname}, g.Expr(t, inner, tInt, depth-1)), g.Expr(t, scope, tFn1, depth-1))
	case "over":
		return CallSym("add", Int(1), Int(2), Int(3))
	case "nonfn":
		return Call(CallSym("add", g.Expr(t, scope, tInt, depth-1), Int(2)), Int(3))
	}
	return Int(rapid.OneOf(rapid.IntRange(-5, 9), rapid.SampledFrom([]int{0, 1, -1, 100, 1 << 40})).Draw(t, "lit"))
}

// Program generates a program whose value is an int or a pair.
func (g Gen) Program(t *rapid.T, depth int) E {
	if rapid.IntRange(0, 9).Draw(t, "pairresult") == 0 {
		return g.Expr(t, nil, tPair, depth)
	}
	return g.Expr(t, nil, tInt, depth)
}

// Free returns the free symbols of e: those not bound by an enclosing lambda of e.
func Free(e b6.Expression, bound []string, out map[string]bool) {
	switch x := e.AnyExpression.(type) {
	case b6.SymbolExpression:
		for _, b := range bound {
			if b == string(x) {
				return
			}
		}
		out[string(x)] = true
	case b6.LambdaExpression:
		Free(x.Expression, append(append([]string{}, bound...), x.Args...), out)
	case b6.CallExpression:
		Free(x.Function, bound, out)
		for _, a := range x.Args {
			Free(a, bound, out)
		}
	}
}
