// C40: concurrent client requests behave like some serial order.
// Built with -race.
package c40

import (
	"context"
	"fmt"
	"sort"
	"strings"
	"sync"
	"testing"
	"time"

	"diagonal.works/b6"
	"diagonal.works/b6/api"
	b6grpc "diagonal.works/b6/grpc"
	"diagonal.works/b6/ingest"
	pb "diagonal.works/b6/proto"
	"pgregory.net/rapid"
	"verif/vlib"
	"verif/wm"
)

type Request struct {
	Op    string `json:"op"` // add-tag copy-tag get add-point list delete
	World int    `json:"world"`
	Node  int    `json:"node"`
	From  int    `json:"from,omitempty"`
	Key   string `json:"key,omitempty"`
	Value string `json:"value,omitempty"`
}

type Case struct {
	Clients [][]Request `json:"clients"`
	Repeats int         `json:"repeats"`
}

var keys = []string{"name", "#amenity"}

func genRequest(t *rapid.T) Request {
	r := Request{Op: rapid.SampledFrom([]string{"add-tag", "add-tag", "add-tag", "add-tag", "get", "get", "get", "add-point", "add-point", "list", "list", "delete", "delete", "copy-tag"}).Draw(t, "op"), World: rapid.IntRange(0, 2).Draw(t, "world"), Node: rapid.IntRange(1, 4).Draw(t, "node")}
	switch r.Op {
	case "add-tag":
		r.Key, r.Value = rapid.SampledFrom(keys).Draw(t, "key"), rapid.SampledFrom([]string{"a", "b", "c"}).Draw(t, "value")
	case "copy-tag":
		r.Key, r.From = rapid.SampledFrom(keys).Draw(t, "key"), rapid.IntRange(1, 3).Draw(t, "from")
	case "get":
		r.Key = rapid.SampledFrom(keys).Draw(t, "key")
	case "add-point":
		r.Node = rapid.IntRange(4, 5).Draw(t, "newnode")
	}
	return r
}

func gen(t *rapid.T) Case {
	c := Case{Repeats: rapid.SampledFrom([]int{20, 50, 100}).Draw(t, "repeats")}
	total := 0
	for i, n := 0, rapid.IntRange(2, 4).Draw(t, "clients"); i < n; i++ {
		var rs []Request
		for j, m := 0, rapid.IntRange(1, 2).Draw(t, "requests"); j < m && total < 6; j++ {
			rs = append(rs, genRequest(t))
			total++
		}
		if len(rs) > 0 {
			c.Clients = append(c.Clients, rs)
		}
	}
	if rapid.IntRange(0, 3).Draw(t, "firstuse") == 0 {
		// every client's first request makes the first use of the same world
		for i := range c.Clients {
			c.Clients[i][0] = Request{Op: "add-tag", World: 1, Node: 1 + i%3, Key: "name", Value: fmt.Sprintf("client%d", i)}
		}
	}
	return c
}

var worldIDs = []b6.FeatureID{b6.FeatureIDInvalid, {Type: b6.FeatureTypeCollection, Namespace: "diagonal.works/world", Value: 1}, {Type: b6.FeatureTypeCollection, Namespace: "diagonal.works/world", Value: 2}}

func node(i int) b6.FeatureID {
	return b6.FeatureID{Type: b6.FeatureTypePoint, Namespace: b6.NamespaceOSMNode, Value: uint64(i)}
}

var (
	baseOnce sync.Once
	base     b6.World
	baseErr  error
)

func baseWorld() (b6.World, error) {
	baseOnce.Do(func() {
		var fs []wm.FeatureS
		for i := 1; i <= 3; i++ {
			ll := wm.LL{Lat: 515350000 + int32(i)*1000, Lng: -1250000}
			fs = append(fs, wm.FeatureS{ID: wm.FromID(node(i)), Point: &ll, Tags: []wm.TagS{{K: "name", V: fmt.Sprintf("n%d", i)}, {K: "#amenity", V: "cafe"}}})
		}
		base, baseErr = wm.BuildBasic(fs, 1, true)
	})
	return base, baseErr
}

func sym(s string) b6.Expression { return b6.NewSymbolExpression(s) }
func call(f string, args ...b6.Expression) b6.Expression {
	return b6.NewCallExpression(sym(f), args)
}

func (r Request) expression() b6.Expression {
	id := b6.NewFeatureIDExpression(node(r.Node))
	switch r.Op {
	case "add-tag":
		return call("add-tag", id, b6.Expression{AnyExpression: b6.TagExpression{Key: r.Key, Value: b6.NewStringExpression(r.Value)}})
	case "copy-tag":
		return call("add-tag", id, call("get", b6.NewFeatureIDExpression(node(r.From)), b6.NewStringExpression(r.Key)))
	case "get":
		return call("get-string", id, b6.NewStringExpression(r.Key))
	case "add-point":
		return call("add-point", call("ll", b6.NewFloatExpression(51.54), b6.NewFloatExpression(-0.12)), id, call("collection", call("pair", b6.NewIntExpression(0), b6.Expression{AnyExpression: b6.TagExpression{Key: "name", Value: b6.NewStringExpression("added")}})))
	}
	return b6.Expression{}
}

// issue sends one request and renders the response.
func issue(s pb.B6Server, r Request) string {
	ctx := context.Background()
	switch r.Op {
	case "list":
		response, err := s.ListWorlds(ctx, &pb.ListWorldsRequestProto{})
		if err != nil {
			return "error"
		}
		var ids []string
		for _, id := range response.Ids {
			ids = append(ids, b6.NewFeatureIDFromProto(id).String())
		}
		sort.Strings(ids)
		if vlib.Known("c40-evaluate-not-atomic") {
			// known finding: a world is listed from the moment a request names it, before that
			// request's change is applied; which worlds a concurrent list shows isn't compared
			return "listed"
		}
		return "worlds: " + strings.Join(ids, " ")
	case "delete":
		if _, err := s.DeleteWorld(ctx, &pb.DeleteWorldRequestProto{Id: b6.NewProtoFromFeatureID(worldIDs[r.World])}); err != nil {
			return "error"
		}
		return "deleted"
	}
	p, err := r.expression().ToProto()
	if err != nil {
		return "no proto: " + err.Error()
	}
	request := &pb.EvaluateRequestProto{Request: p, Version: b6.ApiVersion}
	if worldIDs[r.World].IsValid() {
		request.Root = b6.NewProtoFromFeatureID(worldIDs[r.World])
	}
	response, err := s.Evaluate(ctx, request)
	if err != nil {
		return "error"
	}
	result, err := b6.ExpressionFromProto(response.GetResult())
	if err != nil {
		return "bad response"
	}
	if c, ok := result.AnyExpression.(b6.CollectionExpression); ok {
		n := 0
		i := c.BeginUntyped()
		for {
			ok, err := i.Next()
			if !ok || err != nil {
				break
			}
			n++
		}
		return fmt.Sprintf("applied to %d", n)
	}
	return "value: " + result.String()
}

// state renders every world the service lists.
func state(s pb.B6Server, worlds ingest.Worlds) string {
	response, err := s.ListWorlds(context.Background(), &pb.ListWorldsRequestProto{})
	if err != nil {
		return "list fails"
	}
	var out []string
	seen := map[b6.FeatureID]int{}
	for _, p := range response.Ids {
		id := b6.NewFeatureIDFromProto(p)
		seen[id]++
		w := worlds.FindOrCreateWorld(id)
		var fs []string
		for i := 1; i <= 5; i++ {
			fs = append(fs, wm.FeatureString(w.FindFeatureByID(node(i))))
		}
		out = append(out, id.String()+": "+strings.Join(fs, " | "))
	}
	for id, n := range seen {
		if n > 1 {
			out = append(out, fmt.Sprintf("%s listed %d times", id, n))
		}
	}
	sort.Strings(out)
	return strings.Join(out, "\n")
}

func newService(w b6.World) (pb.B6Server, ingest.Worlds) {
	worlds := &ingest.MutableWorlds{Base: w}
	return b6grpc.NewB6Service(worlds, api.Options{Cores: 1}, &sync.RWMutex{}), worlds
}

type outcome struct {
	responses string
	state     string
}

// serial enumerates every interleaving of the clients' requests that keeps each
// client's order, runs it on a fresh service, and collects the outcomes.
func serial(c Case, w b6.World) map[outcome]string {
	out := map[outcome]string{}
	next := make([]int, len(c.Clients))
	var order []int
	var walk func()
	walk = func() {
		done := true
		for i := range c.Clients {
			if next[i] < len(c.Clients[i]) {
				done = false
				next[i]++
				order = append(order, i)
				walk()
				order = order[:len(order)-1]
				next[i]--
			}
		}
		if !done {
			return
		}
		s, worlds := newService(w)
		position := make([]int, len(c.Clients))
		responses := make([][]string, len(c.Clients))
		for _, i := range order {
			responses[i] = append(responses[i], issue(s, c.Clients[i][position[i]]))
			position[i]++
		}
		o := outcome{fmt.Sprint(responses), state(s, worlds)}
		if _, ok := out[o]; !ok {
			out[o] = fmt.Sprint(order)
		}
	}
	walk()
	return out
}

func check(c Case) vlib.Outcome {
	total, copies := 0, 0
	for _, rs := range c.Clients {
		total += len(rs)
		for _, r := range rs {
			if r.World < 0 || r.World >= len(worldIDs) || r.Node < 1 || r.Node > 5 || r.From < 0 || r.From > 3 {
				return vlib.Outcome{Skip: true}
			}
			if r.Op == "copy-tag" {
				copies++
			}
		}
	}
	if len(c.Clients) < 2 || len(c.Clients) > 4 || total > 6 || c.Repeats < 1 || c.Repeats > 200 {
		return vlib.Outcome{Skip: true}
	}
	if copies >= 1 && vlib.Known("c40-evaluate-not-atomic") {
		return vlib.Excluded("c40-evaluate-not-atomic")
	}
	w, err := baseWorld()
	if err != nil {
		return vlib.Fail("building the base world failed: %v", err)
	}
	acceptable := serial(c, w)
	for repeat := 0; repeat < c.Repeats; repeat++ {
		s, worlds := newService(w)
		responses := make([][]string, len(c.Clients))
		var wg sync.WaitGroup
		start := make(chan struct{})
		for i := range c.Clients {
			wg.Add(1)
			go func(i int) {
				defer wg.Done()
				<-start
				for _, r := range c.Clients[i] {
					responses[i] = append(responses[i], issue(s, r))
				}
			}(i)
		}
		finished := make(chan struct{})
		go func() { wg.Wait(); close(finished) }()
		close(start)
		select {
		case <-finished:
		case <-time.After(10 * time.Second):
			return vlib.Fail("%d concurrent clients %+v haven't finished after 10s", len(c.Clients), c.Clients)
		}
		o := outcome{fmt.Sprint(responses), state(s, worlds)}
		if _, ok := acceptable[o]; !ok {
			var orders []string
			for a, order := range acceptable {
				orders = append(orders, fmt.Sprintf("order %s: responses %s\n%s", order, a.responses, a.state))
			}
			sort.Strings(orders)
			if len(orders) > 4 {
				orders = orders[:4]
			}
			return vlib.Fail("clients %+v running concurrently (attempt %d) got responses %s and left\n%s\nwhich no serial order of the requests gives; %d distinct serial outcomes, for example:\n%s", c.Clients, repeat, o.responses, o.state, len(acceptable), strings.Join(orders, "\n"))
		}
	}
	out := vlib.Outcome{NonTrivial: len(acceptable) >= 2, Classes: []string{fmt.Sprintf("clients=%d", len(c.Clients))}}
	if copies > 0 {
		out.Classes = append(out.Classes, "read-dependent-change")
	}
	return out
}

func TestProp(t *testing.T) {
	vlib.Run(t, vlib.Config{ID: "C40", Name: "service-serialisability", CaseTimeout: 180e9,
		Rule: "2-4 clients with 1-2 requests each (at most 6 in all) against a fresh gRPC service: evaluate requests that read a tag, add a tag, copy a tag from another feature (a change computed from a read), add a point, on one of three worlds, plus list-worlds and delete-world; sometimes every client's first request is the first use of the same world; the clients run concurrently from a common start 20-100 times under the race detector; oracle: no race report, completion within 10 s, and the responses together with the final content of every listed world equal those of some interleaving of the requests run one at a time (all interleavings are enumerated), with no world listed twice; non-trivial = the serial orders give at least two distinct outcomes"},
		gen, check)
}
