// Package gen holds generators shared between checks. Every random choice is
// a rapid draw so that cases shrink and replay.
package gen

import (
	"math"

	"pgregory.net/rapid"
)

// U64 draws 64-bit values from a mixture biased to encoding boundaries:
// small values, powers of two +-1 at varint/delta boundaries, values with bit
// 63 set and MaxUint64.
func U64() *rapid.Generator[uint64] {
	return rapid.Custom(func(t *rapid.T) uint64 {
		switch rapid.IntRange(0, 9).Draw(t, "u64class") {
		case 0, 1, 2:
			return uint64(rapid.IntRange(0, 50).Draw(t, "small"))
		case 3, 4:
			bits := rapid.SampledFrom([]uint{7, 8, 14, 16, 21, 24, 28, 31, 32, 33, 35, 42, 48, 49, 56, 62, 63}).Draw(t, "bits")
			d := rapid.IntRange(-2, 2).Draw(t, "delta")
			return uint64(int64(uint64(1)<<bits) + int64(d))
		case 5:
			return (uint64(1) << 63) + uint64(rapid.IntRange(0, 1000).Draw(t, "hi"))
		case 6:
			return math.MaxUint64 - uint64(rapid.IntRange(0, 3).Draw(t, "max"))
		default:
			return rapid.Uint64().Draw(t, "any")
		}
	})
}

// I64 draws signed values including the extremes.
func I64() *rapid.Generator[int64] {
	return rapid.Custom(func(t *rapid.T) int64 {
		switch rapid.IntRange(0, 5).Draw(t, "i64class") {
		case 0:
			return math.MinInt64 + int64(rapid.IntRange(0, 2).Draw(t, "min"))
		case 1:
			return math.MaxInt64 - int64(rapid.IntRange(0, 2).Draw(t, "max"))
		case 2, 3:
			return int64(rapid.IntRange(-100, 100).Draw(t, "small"))
		default:
			return rapid.Int64().Draw(t, "any")
		}
	})
}
