// C01: the compact index round-trips every feature it accepts.
package c01

import (
	"fmt"
	"sort"
	"testing"

	"diagonal.works/b6"
	"pgregory.net/rapid"
	"verif/vlib"
	"verif/wm"
)

type Case struct {
	Set        wm.Set `json:"set"`
	Goroutines int    `json:"goroutines"`
}

func gen(t *rapid.T) Case {
	cfg := wm.GenConfig{MaxPoints: 6, MaxPaths: 4, MaxLoops: 3, MaxAreas: 3, MaxRelations: 3,
		HighIDs: true, LatLngPaths: true, MixedPaths: true, LatLngAreas: true, MixedAreas: true, Holes: true, AbsentMembers: true, SelfMembers: true}
	if vlib.Known("c01-mixed-path") {
		cfg.MixedPaths = false
	}
	if vlib.Known("c01-mixed-area") {
		cfg.MixedAreas = false
	}
	return Case{Set: wm.GenSet(t, cfg), Goroutines: rapid.SampledFrom([]int{1, 1, 2, 4}).Draw(t, "goroutines")}
}

func classes(s wm.Set) (cl []string, nontrivial bool) {
	nss := map[string]bool{}
	high, mixedPath, mixedArea, areaInRelation, llArea, llPath := false, false, false, false, false, false
	pointsPerNS := map[string]int{}
	areas := map[b6.FeatureID]bool{}
	structured := false
	for _, f := range s.Features {
		id := f.ID.ID()
		nss[f.ID.NS] = true
		if id.Value >= 1<<63 {
			high = true
		}
		switch id.Type {
		case b6.FeatureTypePoint:
			pointsPerNS[f.ID.NS]++
		case b6.FeatureTypePath:
			structured = true
			refs, lls := 0, 0
			for _, e := range f.Path {
				if e.Ref != nil {
					refs++
				} else {
					lls++
				}
			}
			if refs > 0 && lls > 0 {
				mixedPath = true
			}
			if refs == 0 {
				llPath = true
			}
		case b6.FeatureTypeArea:
			structured = true
			areas[id] = true
			p, l := 0, 0
			for _, poly := range f.Polys {
				if len(poly.Paths) > 0 {
					p++
				} else {
					l++
				}
			}
			if p > 0 && l > 0 {
				mixedArea = true
			}
			if l > 0 {
				llArea = true
			}
		case b6.FeatureTypeRelation:
			structured = true
		}
	}
	for _, f := range s.Features {
		for _, m := range f.Members {
			if areas[m.ID.ID()] {
				areaInRelation = true
			}
		}
	}
	small := false
	for _, n := range pointsPerNS {
		if n <= 2 {
			small = true
		}
	}
	add := func(b bool, name string) {
		if b {
			cl = append(cl, name)
		}
	}
	add(len(nss) >= 2, ">=2-namespaces")
	add(high, "id>=2^63")
	add(mixedPath, "mixed-path")
	add(llPath, "latlng-path")
	add(mixedArea, "mixed-area")
	add(llArea, "latlng-polygon")
	add(areaInRelation, "area-in-relation")
	add(small, "namespace-with<=2-points")
	nontrivial = structured && (len(nss) >= 2 || high || mixedPath || mixedArea || areaInRelation || small)
	return
}

func hasMixedPath(s wm.Set) bool {
	for _, f := range s.Features {
		refs, lls := 0, 0
		for _, e := range f.Path {
			if e.Ref != nil {
				refs++
			} else {
				lls++
			}
		}
		if refs > 0 && lls > 0 {
			return true
		}
	}
	return false
}

func hasMixedArea(s wm.Set) bool {
	for _, f := range s.Features {
		p, l := 0, 0
		for _, poly := range f.Polys {
			if len(poly.Paths) > 0 {
				p++
			} else {
				l++
			}
		}
		if p > 0 && l > 0 {
			return true
		}
	}
	return false
}

func check(c Case) vlib.Outcome {
	if c.Goroutines < 1 || c.Goroutines > 16 || len(c.Set.Features) == 0 {
		return vlib.Outcome{Skip: true}
	}
	if vlib.Known("c01-mixed-path") && hasMixedPath(c.Set) {
		return vlib.Excluded("c01-mixed-path")
	}
	if vlib.Known("c01-mixed-area") && hasMixedArea(c.Set) {
		return vlib.Excluded("c01-mixed-area")
	}
	// The model: the same features in the plain in-memory world; building it
	// with FailInvalidFeatures also confirms the generated set is valid input.
	basic, err := wm.BuildBasic(c.Set.Features, 1, true)
	if err != nil {
		return vlib.Outcome{Skip: true, Classes: []string{"skipped:generator-produced-invalid-set"}}
	}
	compactWorld, err := wm.BuildCompact(c.Set.Features, c.Goroutines)
	if err != nil {
		return vlib.Fail("compact build of a valid feature set failed: %v", err)
	}
	// every feature is found by its true ID with the tags and location it was given
	for _, f := range c.Set.Features {
		id := f.ID.ID()
		if !compactWorld.HasFeatureWithID(id) {
			return vlib.Fail("HasFeatureWithID(%v) is false after the build", id)
		}
		got := compactWorld.FindFeatureByID(id)
		if got == nil {
			return vlib.Fail("FindFeatureByID(%v) is nil after the build", id)
		}
		if got.FeatureID() != id {
			return vlib.Fail("FindFeatureByID(%v) returns a feature with ID %v", id, got.FeatureID())
		}
		for _, tag := range f.Tags {
			g := got.Get(tag.K)
			if !g.IsValid() || g.Value.String() != tag.V {
				return vlib.Fail("feature %v: tag %s=%q reads back as %q (valid=%v); all tags %v", id, tag.K, tag.V, g.Value.String(), g.IsValid(), got.AllTags())
			}
		}
		if f.Point != nil {
			ll, err := compactWorld.FindLocationByID(id)
			if err != nil || ll.Lat.E7() != f.Point.Lat || ll.Lng.E7() != f.Point.Lng {
				return vlib.Fail("point %v written at %v reads back at %d,%d (err %v)", id, *f.Point, ll.Lat.E7(), ll.Lng.E7(), err)
			}
		}
	}
	probes := c.Set.Probes()
	o := wm.ObserveOptions{SkipReferences: true, SkipTraverse: true}
	want := wm.Observe(basic, probes, nil, o)
	got := wm.Observe(compactWorld, probes, nil, o)
	if d := wm.Diff(want, got, "in-memory", "compact  "); d != "" {
		return vlib.Fail("compact world differs from the features it was built from:\n%s", d)
	}
	// enumeration with several goroutines: every ID exactly once
	seen := map[b6.FeatureID]int{}
	var lock chan struct{} = make(chan struct{}, 1)
	err = compactWorld.EachFeature(func(f b6.Feature, g int) error {
		lock <- struct{}{}
		seen[f.FeatureID()]++
		<-lock
		return nil
	}, &b6.EachFeatureOptions{Goroutines: c.Goroutines})
	if err != nil {
		return vlib.Fail("EachFeature: %v", err)
	}
	var ids []string
	for id, n := range seen {
		if n != 1 {
			return vlib.Fail("EachFeature yields %v %d times", id, n)
		}
		ids = append(ids, id.String())
	}
	sort.Strings(ids)
	var wantIDs []string
	for _, f := range c.Set.Features {
		wantIDs = append(wantIDs, f.ID.ID().String())
	}
	sort.Strings(wantIDs)
	if fmt.Sprint(ids) != fmt.Sprint(wantIDs) {
		return vlib.Fail("EachFeature yields %v, built from %v", ids, wantIDs)
	}
	cl, nt := classes(c.Set)
	return vlib.Outcome{NonTrivial: nt, Classes: cl}
}

func TestProp(t *testing.T) {
	vlib.Run(t, vlib.Config{ID: "C01", Name: "compact-roundtrip", CaseTimeout: 120e9,
		Rule: "valid feature sets (2-6 free points, 0-4 paths of references/lat-lngs/both, 0-3 closed paths over their own points, 0-3 areas with 1-3 polygons given as path references/lat-lng loops with optional hole/both, 0-3 relations over any members incl. areas, relations and absent IDs) in 1-2 namespaces per type from a pool, ID values from a boundary mixture incl. >= 2^63; built with compact.BuildInMemory (1-4 goroutines) and loaded with NewWorldFromData; oracle: the same set in the plain in-memory world (lookup, existence, tags as a multiset with kinds, locations and geometry at E7, polygons up to rotation, members, enumeration) plus direct checks of ID, tags and location against the input; non-trivial = has a path/area/relation and one of >= 2 namespaces, ID >= 2^63, mixed geometry, area in a relation, a namespace with <= 2 points"},
		gen, check)
}
