// C06: search iterators implement sorted-set algebra under any call sequence.
package c06

import (
	"fmt"
	"math"
	"sort"
	"strings"
	"testing"

	"diagonal.works/b6"
	"diagonal.works/b6/search"
	"pgregory.net/rapid"
	"verif/plist"
	"verif/vlib"
)

// The key space: 48 feature IDs whose index order is their FeatureID order.
var nss = []b6.Namespace{"a.example/ns", "openstreetmap.org/node", "zz"}
var vals = []uint64{0, 1, 2, 5, 1 << 32, 1 << 63, math.MaxUint64 - 1, math.MaxUint64}

const keySpace = 48

func key(i int) b6.FeatureID {
	return b6.FeatureID{Type: b6.FeatureType(i / 24), Namespace: nss[(i/8)%3], Value: vals[i%8]}
}

var tokenPool = []string{"a", "ab", "abc", "abd", "b", "ba", "#k=v", "#k=w", "c"}

type Query struct {
	Op       string  `json:"op"` // all, empty, union, intersection, range, prefix
	Token    string  `json:"token,omitempty"`
	Begin    int     `json:"begin,omitempty"`
	End      int     `json:"end,omitempty"`
	Children []Query `json:"children,omitempty"`
}

type Step struct {
	Op  string `json:"op"` // next, advance
	Key int    `json:"key,omitempty"`
}

type Case struct {
	Backend string           `json:"backend"` // array, tree, compact
	Lists   map[string][]int `json:"lists"`
	Order   []int            `json:"insert_order_seed"`
	Query   Query            `json:"query"`
	Script  []Step           `json:"script"`
}

func genQuery(t *rapid.T, depth int, present []string) Query {
	min, max := 0, 7
	if depth <= 0 {
		max = 2
	} else if depth >= 2 && rapid.IntRange(0, 5).Draw(t, "composite") > 0 {
		min = 3
	}
	switch rapid.IntRange(min, max).Draw(t, "qop") {
	case 0, 1:
		if len(present) > 0 && rapid.IntRange(0, 9).Draw(t, "presentToken") > 0 {
			return Query{Op: "all", Token: rapid.SampledFrom(present).Draw(t, "token")}
		}
		return Query{Op: "all", Token: rapid.SampledFrom(append(tokenPool, "missing")).Draw(t, "token")}
	case 2:
		if rapid.IntRange(0, 5).Draw(t, "emptyOrPrefix") == 0 {
			return Query{Op: "empty"}
		}
		return Query{Op: "prefix", Token: rapid.SampledFrom([]string{"a", "ab", "b", "#k=", "", "zz", "abc"}).Draw(t, "prefix")}
	case 3, 4:
		n := rapid.IntRange(0, 4).Draw(t, "nunion")
		q := Query{Op: "union"}
		for i := 0; i < n; i++ {
			q.Children = append(q.Children, genQuery(t, depth-1, present))
		}
		return q
	case 5, 6:
		n := rapid.IntRange(1, 4).Draw(t, "nintersection")
		q := Query{Op: "intersection"}
		for i := 0; i < n; i++ {
			q.Children = append(q.Children, genQuery(t, depth-1, present))
		}
		return q
	default:
		b := rapid.IntRange(0, keySpace).Draw(t, "begin")
		if rapid.Bool().Draw(t, "lowbegin") {
			b = b / 4
		}
		e := rapid.IntRange(b, keySpace).Draw(t, "end")
		if rapid.Bool().Draw(t, "highend") {
			e = keySpace - (keySpace-e)/4
		}
		return Query{Op: "range", Begin: b, End: e, Children: []Query{genQuery(t, depth-1, present)}}
	}
}


func gen(t *rapid.T) Case {
	c := Case{Backend: rapid.SampledFrom([]string{"array", "tree", "compact"}).Draw(t, "backend"), Lists: map[string][]int{}}
	ntokens := rapid.IntRange(0, 9).Draw(t, "ntokens")
	for i := 0; i < ntokens; i++ {
		token := rapid.SampledFrom(tokenPool).Draw(t, "token")
		dense := rapid.IntRange(0, 5).Draw(t, "density")
		var list []int
		switch dense {
		case 0:
			list = rapid.SliceOfNDistinct(rapid.IntRange(0, keySpace-1), 0, 4, rapid.ID[int]).Draw(t, "list")
		case 1:
			list = rapid.SliceOfNDistinct(rapid.IntRange(0, keySpace-1), 0, 20, rapid.ID[int]).Draw(t, "list")
		default:
			list = rapid.SliceOfNDistinct(rapid.IntRange(0, keySpace-1), 20, keySpace, rapid.ID[int]).Draw(t, "list")
		}
		c.Lists[token] = list // insertion order as drawn (the tree is built in this order)
	}
	present := make([]string, 0, len(c.Lists))
	for _, token := range tokenPool {
		if _, ok := c.Lists[token]; ok {
			present = append(present, token)
		}
	}
	c.Query = genQuery(t, 3, present)
	n := rapid.IntRange(1, 30).Draw(t, "steps")
	for i := 0; i < n; i++ {
		if rapid.Bool().Draw(t, "isnext") {
			c.Script = append(c.Script, Step{Op: "next"})
		} else {
			c.Script = append(c.Script, Step{Op: "advance", Key: rapid.IntRange(0, keySpace-1).Draw(t, "key")})
		}
	}
	return c
}

// The prefix of a "prefix" query is carried in Token.

func denote(q Query, lists map[string][]int) (map[int]bool, int, bool) {
	out := map[int]bool{}
	depth := 0
	switch q.Op {
	case "all":
		for _, v := range lists[q.Token] {
			out[v] = true
		}
	case "empty":
	case "prefix":
		for token, l := range lists {
			if strings.HasPrefix(token, q.Token) {
				for _, v := range l {
					out[v] = true
				}
			}
		}
	case "union":
		for _, ch := range q.Children {
			s, d, ok := denote(ch, lists)
			if !ok {
				return nil, 0, false
			}
			if d > depth {
				depth = d
			}
			for v := range s {
				out[v] = true
			}
		}
		depth++
	case "intersection":
		if len(q.Children) == 0 {
			return nil, 0, false
		}
		for i, ch := range q.Children {
			s, d, ok := denote(ch, lists)
			if !ok {
				return nil, 0, false
			}
			if d > depth {
				depth = d
			}
			if i == 0 {
				out = s
			} else {
				for v := range out {
					if !s[v] {
						delete(out, v)
					}
				}
			}
		}
		depth++
	case "range":
		if len(q.Children) != 1 || q.Begin < 0 || q.End > keySpace || q.Begin > q.End {
			return nil, 0, false
		}
		s, d, ok := denote(q.Children[0], lists)
		if !ok {
			return nil, 0, false
		}
		for v := range s {
			if v >= q.Begin && v < q.End {
				out[v] = true
			}
		}
		depth = d + 1
	default:
		return nil, 0, false
	}
	return out, depth, true
}

// A key one past the key space, for range ends.
func keyOrEnd(i int) b6.FeatureID {
	if i >= keySpace {
		return b6.FeatureID{Type: b6.FeatureTypeArea, Namespace: nss[0], Value: 0}
	}
	return key(i)
}

func build(q Query) search.Query {
	switch q.Op {
	case "all":
		return search.All{Token: q.Token}
	case "empty":
		return search.Empty{}
	case "prefix":
		return search.TokenPrefix{Prefix: q.Token}
	case "union":
		u := search.Union{}
		for _, ch := range q.Children {
			u = append(u, build(ch))
		}
		return u
	case "intersection":
		in := search.Intersection{}
		for _, ch := range q.Children {
			in = append(in, build(ch))
		}
		return in
	case "range":
		return search.KeyRange{Begin: keyOrEnd(q.Begin), End: keyOrEnd(q.End), Query: build(q.Children[0])}
	}
	panic("bad query")
}

func check(c Case) vlib.Outcome {
	for _, l := range c.Lists {
		for _, v := range l {
			if v < 0 || v >= keySpace {
				return vlib.Outcome{Skip: true}
			}
		}
	}
	set, depth, ok := denote(c.Query, c.Lists)
	if !ok {
		return vlib.Outcome{Skip: true}
	}
	want := make([]int, 0, len(set))
	for v := range set {
		want = append(want, v)
	}
	sort.Ints(want)

	tokens := make([]string, 0, len(c.Lists))
	for token := range c.Lists {
		tokens = append(tokens, token)
	}
	sort.Strings(tokens)
	var index search.Index
	switch c.Backend {
	case "array":
		a := search.NewArrayIndex(plist.FeatureIDValues{})
		for _, token := range tokens {
			for _, v := range c.Lists[token] {
				a.Add(key(v), []string{token})
			}
		}
		a.Finish(2)
		index = a
	case "tree":
		tr := search.NewTreeIndex(plist.FeatureIDValues{})
		for _, token := range tokens {
			for _, v := range c.Lists[token] {
				tr.Add(key(v), []string{token})
			}
		}
		index = tr
	case "compact":
		lists := map[string][]b6.FeatureID{}
		for _, token := range tokens {
			for _, v := range c.Lists[token] {
				lists[token] = append(lists[token], key(v))
			}
			if len(c.Lists[token]) == 0 {
				lists[token] = nil
			}
		}
		index = plist.NewIndex(lists, plist.Table(nss))
	default:
		return vlib.Outcome{Skip: true}
	}

	q := build(c.Query)
	// 1. a plain scan yields exactly the denotation, in order
	it := q.Compile(index)
	for i, w := range want {
		if !it.Next() {
			return vlib.Fail("%s: scan of %s stops after %d of %d values %v", c.Backend, q, i, len(want), want)
		}
		if got, ok := it.Value().(b6.FeatureID); !ok || got != key(w) {
			return vlib.Fail("%s: scan of %s: value %d is %v, expected key %d = %v (denotation %v)", c.Backend, q, i, it.Value(), w, key(w), want)
		}
	}
	if it.Next() {
		return vlib.Fail("%s: scan of %s yields an extra value %v after the %d expected %v", c.Backend, q, it.Value(), len(want), want)
	}
	// 2. the generated mix of Next and Advance
	it = q.Compile(index)
	pos := -1
	nexts, advances := 0, 0
	for si, step := range c.Script {
		var got bool
		var wantPos int
		switch step.Op {
		case "next":
			got = it.Next()
			wantPos = pos + 1
			nexts++
		case "advance":
			if step.Key < 0 || step.Key >= keySpace {
				return vlib.Outcome{Skip: true}
			}
			got = it.Advance(key(step.Key))
			from := pos
			if from < 0 {
				from = 0
			}
			wantPos = from + sort.SearchInts(want[from:], step.Key)
			advances++
		default:
			return vlib.Outcome{Skip: true}
		}
		if got != (wantPos < len(want)) {
			return vlib.Fail("%s: %s: step %d %s(%d) = %v at position %d; denotation %v", c.Backend, q, si, step.Op, step.Key, got, pos, want)
		}
		if !got {
			break // behaviour after exhaustion is unspecified
		}
		pos = wantPos
		if v, ok := it.Value().(b6.FeatureID); !ok || v != key(want[pos]) {
			return vlib.Fail("%s: %s: step %d %s(%d): at %v, expected key %d = %v; denotation %v", c.Backend, q, si, step.Op, step.Key, it.Value(), want[pos], key(want[pos]), want)
		}
	}
	out := vlib.Outcome{NonTrivial: nexts > 0 && advances > 0 && depth >= 2 && len(want) >= 2}
	out.Classes = append(out.Classes, "backend="+c.Backend, fmt.Sprintf("depth=%d", depth))
	if len(want) == 0 {
		out.Classes = append(out.Classes, "empty-result")
	}
	return out
}

func TestProp(t *testing.T) {
	vlib.Run(t, vlib.Config{ID: "C06", Name: "iterator-algebra",
		Rule: "indices of 0-8 tokens with posting lists of 0-48 feature-ID keys (values up to 2^64-1 in 3 namespaces and 2 types) on ArrayIndex, TreeIndex and compact posting lists; query trees of depth <= 3 over all/empty/union(0-4)/intersection(1-4)/key-range/token-prefix; a full Next scan plus a script of 1-30 Next/Advance(k) calls compared with the set denotation and a sorted-slice position model; the script stops at the first false; non-trivial = script mixes Next and Advance, tree depth >= 2, result size >= 2"},
		gen, check)
}
