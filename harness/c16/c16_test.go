// C16: overlay worlds shadow the base consistently.
package c16

import (
	"encoding/json"
	"fmt"
	"sort"
	"strings"
	"testing"

	"diagonal.works/b6"
	"diagonal.works/b6/ingest"
	"pgregory.net/rapid"
	"verif/vlib"
	"verif/wm"
)

type Case struct {
	Base      wm.Set        `json:"base"`
	Upper     []wm.FeatureS `json:"upper"`
	BaseKind  string        `json:"base_kind"`  // basic, compact, mutable
	UpperKind string        `json:"upper_kind"` // basic, compact, mutable, mutable-overlay (a MutableOverlayWorld over the base with the upper features added)
	ViaTags   bool          `json:"via_tags,omitempty"` // mutable-overlay only: versions that differ from the base feature only in tags are made with RemoveTag and AddTag instead of AddFeature
}

var keys = []string{"name", "#amenity", "#highway", "@wikidata"}
var values = []string{"cafe", "yes", "v1"}

func genTags(t *rapid.T, label string) []wm.TagS {
	n := rapid.IntRange(0, 3).Draw(t, label+"n")
	ks := rapid.SliceOfNDistinct(rapid.SampledFrom(keys), n, n, rapid.ID[string]).Draw(t, label+"keys")
	out := []wm.TagS{}
	for _, k := range ks {
		out = append(out, wm.TagS{K: k, V: rapid.SampledFrom(values).Draw(t, label+"v")})
	}
	return out
}

func gen(t *rapid.T) Case {
	c := Case{
		Base: wm.GenSet(t, wm.GenConfig{MaxPoints: 5, MaxPaths: 3, MaxLoops: 2, MaxAreas: 2, MaxRelations: 2,
			Namespaces: []string{string(b6.NamespaceOSMNode), string(b6.NamespaceOSMWay), string(b6.NamespaceOSMRelation)},
			TagKeys:    keys, TagValues: values}),
		BaseKind:  rapid.SampledFrom([]string{"basic", "basic", "mutable", "compact"}).Draw(t, "basekind"),
		UpperKind: rapid.SampledFrom([]string{"basic", "basic", "mutable", "mutable-overlay", "mutable-overlay", "compact"}).Draw(t, "upperkind"),
	}
	c.ViaTags = c.UpperKind == "mutable-overlay" && rapid.Bool().Draw(t, "viatags")
	used := map[b6.FeatureID]bool{}
	add := func(f wm.FeatureS) {
		if !used[f.ID.ID()] {
			used[f.ID.ID()] = true
			c.Upper = append(c.Upper, f)
		}
	}
	byID := map[b6.FeatureID]wm.FeatureS{}
	for _, f := range c.Base.Features {
		byID[f.ID.ID()] = f
	}
	var baseAreas []int
	for i, f := range c.Base.Features {
		if f.ID.ID().Type == b6.FeatureTypeArea {
			baseAreas = append(baseAreas, i)
		}
	}
	n := rapid.IntRange(1, 6).Draw(t, "nupper")
	for i := 0; i < n; i++ {
		switch rapid.IntRange(0, 3).Draw(t, "upperclass") {
		case 0: // a new point
			ll := wm.LL{Lat: 515600000 + int32(i*977), Lng: -1300000 + int32(i*1013)}
			add(wm.FeatureS{ID: wm.FID{T: 0, NS: rapid.SampledFrom([]string{string(b6.NamespaceOSMNode), "diagonal.works/ns/other"}).Draw(t, "ns"), V: uint64(700 + i)}, Point: &ll, Tags: genTags(t, "newtags")})
		default: // another version of a base feature
			f := c.Base.Features[rapid.IntRange(0, len(c.Base.Features)-1).Draw(t, "shadowed")].Clone()
			if len(baseAreas) > 0 && rapid.IntRange(0, 2).Draw(t, "preferarea") == 0 {
				f = c.Base.Features[rapid.SampledFrom(baseAreas).Draw(t, "shadowedarea")].Clone()
			}
			switch f.ID.ID().Type {
			case b6.FeatureTypePoint:
				f.Tags = genTags(t, "shadowtags")
				if rapid.Bool().Draw(t, "moved") {
					ll := wm.LL{Lat: f.Point.Lat + int32(rapid.IntRange(1, 50).Draw(t, "dlat")), Lng: f.Point.Lng - int32(rapid.IntRange(1, 50).Draw(t, "dlng"))}
					f.Point = &ll
				}
				add(f)
			case b6.FeatureTypeRelation:
				f.Tags = genTags(t, "shadowtags")
				f.Members = nil
				add(f)
			case b6.FeatureTypeArea:
				// another version of an area over paths: the upper world must be valid on its own, so it
				// gets unchanged copies of the area's paths and of their points
				ok := len(f.Polys) > 0
				var bring []wm.FeatureS
				for _, poly := range f.Polys {
					ok = ok && len(poly.Paths) > 0 && len(poly.Loops) == 0
					for _, pid := range poly.Paths {
						path, found := byID[pid.ID()]
						ok = ok && found
						for _, e := range path.Path {
							if e.Ref == nil {
								continue
							}
							if pt, found := byID[e.Ref.ID()]; found {
								bring = append(bring, pt.Clone())
							} else {
								ok = false
							}
						}
						if found {
							bring = append(bring, path.Clone())
						}
					}
				}
				for _, b := range bring {
					ok = ok && !used[b.ID.ID()] // a version of it is already in the upper layer: leave the area alone
				}
				if ok && !used[f.ID.ID()] {
					seen := map[b6.FeatureID]bool{}
					for _, b := range bring {
						if !seen[b.ID.ID()] {
							seen[b.ID.ID()] = true
							add(b)
						}
					}
					f.Tags = genTags(t, "shadowtags")
					add(f)
				}
			case b6.FeatureTypePath:
				// the upper world must be valid on its own: bring unchanged copies of the path's points
				if n := len(f.Path); n > 2 && f.Path[0].Ref != nil && f.Path[n-1].Ref != nil && *f.Path[0].Ref == *f.Path[n-1].Ref {
					continue // closed paths keep their areas out of the upper layer; skip
				}
				ok := true
				for _, e := range f.Path {
					if e.Ref != nil {
						if p, found := byID[e.Ref.ID()]; found {
							if !used[p.ID.ID()] {
								add(p.Clone())
							}
						} else {
							ok = false
						}
					}
				}
				if ok {
					f.Tags = genTags(t, "shadowtags")
					add(f)
				}
			}
		}
	}
	return c
}

func tagMap(ts []wm.TagS) map[string]string {
	m := map[string]string{}
	for _, t := range ts {
		m[t.K] = t.V
	}
	return m
}

func render(m map[string]string) string {
	ks := make([]string, 0, len(m))
	for k := range m {
		ks = append(ks, k)
	}
	sort.Strings(ks)
	parts := []string{}
	for _, k := range ks {
		parts = append(parts, k+"="+m[k])
	}
	return "{" + strings.Join(parts, " ") + "}"
}

func nonGeometry(tags b6.Tags) map[string]string {
	out := map[string]string{}
	for _, t := range tags {
		if t.Key != b6.PointTag && t.Key != b6.PathTag {
			out[t.Key] = t.Value.String()
		}
	}
	return out
}

func buildKind(kind string, fs []wm.FeatureS) (b6.World, error) {
	switch kind {
	case "basic":
		return wm.BuildBasic(fs, 1, true)
	case "mutable":
		return wm.BuildMutable(fs)
	case "compact":
		if _, err := wm.BuildBasic(fs, 1, true); err != nil {
			return nil, err
		}
		return wm.BuildCompact(fs, 1)
	}
	return nil, fmt.Errorf("bad kind %q", kind)
}

func check(c Case) vlib.Outcome {
	if len(c.Base.Features) == 0 || len(c.Upper) == 0 {
		return vlib.Outcome{Skip: true}
	}
	base, err := buildKind(c.BaseKind, c.Base.Features)
	if err != nil {
		return vlib.Outcome{Skip: true, Classes: []string{"skipped:base-not-valid"}}
	}
	var w b6.World
	viaTags := false
	if c.UpperKind == "mutable-overlay" {
		o := ingest.NewMutableOverlayWorld(base)
		inBase := map[b6.FeatureID]wm.FeatureS{}
		for _, f := range c.Base.Features {
			inBase[f.ID.ID()] = f
		}
		for _, f := range wm.SortForInsertion(c.Upper) {
			if old, ok := inBase[f.ID.ID()]; ok && c.ViaTags {
				a, b := old.Clone(), f.Clone()
				a.Tags, b.Tags = nil, nil
				ja, _ := json.Marshal(a)
				jb, _ := json.Marshal(b)
				if string(ja) == string(jb) {
					// the same feature with other tags: edit the tags in place
					for _, t := range old.Tags {
						if _, keep := tagMap(f.Tags)[t.K]; !keep {
							if err := o.RemoveTag(f.ID.ID(), t.K); err != nil {
								return vlib.Fail("RemoveTag(%v, %s): %v", f.ID.ID(), t.K, err)
							}
						}
					}
					for _, t := range f.Tags {
						if err := o.AddTag(f.ID.ID(), b6.Tag{Key: t.K, Value: b6.NewStringExpression(t.V)}); err != nil {
							return vlib.Fail("AddTag(%v, %s): %v", f.ID.ID(), t.K, err)
						}
					}
					viaTags = true
					continue
				}
			}
			if err := o.AddFeature(wm.ToIngest(f)); err != nil {
				return vlib.Outcome{Skip: true, Classes: []string{"skipped:upper-rejected"}}
			}
		}
		w = o
	} else {
		upper, err := buildKind(c.UpperKind, c.Upper)
		if err != nil {
			return vlib.Outcome{Skip: true, Classes: []string{"skipped:upper-not-valid"}}
		}
		w = ingest.NewOverlayWorld(upper, base)
	}
	model := map[b6.FeatureID]wm.FeatureS{}
	var order []b6.FeatureID
	shadowedDiffers := false
	for _, f := range c.Base.Features {
		model[f.ID.ID()] = f
		order = append(order, f.ID.ID())
	}
	for _, f := range c.Upper {
		if old, ok := model[f.ID.ID()]; ok {
			if render(tagMap(old.Tags)) != render(tagMap(f.Tags)) || (old.Point != nil && f.Point != nil && *old.Point != *f.Point) {
				shadowedDiffers = true
			}
		} else {
			order = append(order, f.ID.ID())
		}
		model[f.ID.ID()] = f
	}
	what := fmt.Sprintf("%s upper over %s base", c.UpperKind, c.BaseKind)
	for _, id := range order {
		m := model[id]
		if !w.HasFeatureWithID(id) {
			return vlib.Fail("%s: HasFeatureWithID(%v) is false", what, id)
		}
		f := w.FindFeatureByID(id)
		if f == nil {
			return vlib.Fail("%s: FindFeatureByID(%v) is nil", what, id)
		}
		if got, want := render(nonGeometry(f.AllTags())), render(tagMap(m.Tags)); got != want {
			return vlib.Fail("%s: lookup of %v shows tags %s, the upper-most version has %s", what, id, got, want)
		}
		if m.Point != nil {
			ll, err := w.FindLocationByID(id)
			if err != nil || wm.LLFromS2(ll) != *m.Point {
				return vlib.Fail("%s: FindLocationByID(%v) = %v (err %v), the upper-most version is at %v", what, id, wm.LLFromS2(ll), err, *m.Point)
			}
			if p, ok := f.(b6.PhysicalFeature); !ok || wm.LLFromPoint(p.Point()) != *m.Point {
				return vlib.Fail("%s: lookup of %v is at %v, the upper-most version is at %v", what, id, wm.LLFromPoint(p.Point()), *m.Point)
			}
		}
	}
	// enumeration
	seen := map[b6.FeatureID]int{}
	var eachErr error
	if err := w.EachFeature(func(f b6.Feature, _ int) error {
		id := f.FeatureID()
		seen[id]++
		m, ok := model[id]
		if !ok {
			eachErr = fmt.Errorf("%s: EachFeature yields %v, which is in neither layer", what, id)
		} else if got, want := render(nonGeometry(f.AllTags())), render(tagMap(m.Tags)); got != want && eachErr == nil {
			eachErr = fmt.Errorf("%s: EachFeature yields %v with tags %s, the upper-most version has %s", what, id, got, want)
		}
		return nil
	}, &b6.EachFeatureOptions{Goroutines: 1}); err != nil {
		return vlib.Fail("%s: EachFeature: %v", what, err)
	}
	if eachErr != nil {
		return vlib.Outcome{Err: eachErr}
	}
	sorted := append([]b6.FeatureID{}, order...)
	sort.Slice(sorted, func(i, j int) bool { return sorted[i].Less(sorted[j]) })
	for _, id := range sorted {
		if seen[id] != 1 {
			return vlib.Fail("%s: EachFeature yields %v %d times", what, id, seen[id])
		}
	}
	// areas by point: each area once, in its upper-most version
	shadowedArea := false
	for _, f := range c.Upper {
		if _, inBase := func() (wm.FeatureS, bool) {
			for _, b := range c.Base.Features {
				if b.ID.ID() == f.ID.ID() {
					return b, true
				}
			}
			return wm.FeatureS{}, false
		}(); inBase && f.ID.ID().Type == b6.FeatureTypeArea {
			shadowedArea = true
		}
	}
	for _, id := range sorted {
		if id.Type != b6.FeatureTypePoint {
			continue
		}
		want := map[string]string{}
		for _, aid := range sorted {
			a := model[aid]
			if aid.Type != b6.FeatureTypeArea {
				continue
			}
			for _, poly := range a.Polys {
				for _, pid := range poly.Paths {
					for _, e := range model[pid.ID()].Path {
						if e.Ref != nil && e.Ref.ID() == id {
							want[aid.String()] = render(tagMap(a.Tags))
						}
					}
				}
			}
		}
		got := map[string]string{}
		as := w.FindAreasByPoint(id)
		n := 0
		for as.Next() {
			n++
			got[as.FeatureID().String()] = render(nonGeometry(as.Feature().AllTags()))
		}
		if render(got) != render(want) || n != len(got) {
			return vlib.Fail("%s: FindAreasByPoint(%v) returns %d areas %s; the upper-most versions of the areas over that point are %s", what, id, n, render(got), render(want))
		}
	}
	// traversal: the paths leaving a point are the upper-most versions of the paths through it
	// (only the set of paths is compared: where a path is split into segments is not this property)
	for _, id := range sorted {
		if id.Type != b6.FeatureTypePoint {
			continue
		}
		want := map[string]string{}
		for _, pid := range sorted {
			if pid.Type != b6.FeatureTypePath || len(model[pid].Path) < 2 {
				continue
			}
			for _, e := range model[pid].Path {
				if e.Ref != nil && e.Ref.ID() == id {
					want[pid.String()] = ""
				}
			}
		}
		got := map[string]string{}
		ss := w.Traverse(id)
		for ss.Next() {
			got[ss.Segment().Feature.FeatureID().String()] = ""
		}
		if render(got) != render(want) {
			return vlib.Fail("%s: Traverse(%v) leaves along paths %s; the paths through that point are %s", what, id, render(got), render(want))
		}
	}
	// searches
	for _, k := range keys {
		if k == "name" {
			continue
		}
		qs := []b6.Query{b6.Keyed{Key: k}}
		expect := []func(m wm.FeatureS) bool{func(m wm.FeatureS) bool { _, ok := tagMap(m.Tags)[k]; return ok }}
		if strings.HasPrefix(k, "#") {
			for _, v := range values {
				v := v
				qs = append(qs, b6.Tagged{Key: k, Value: b6.NewStringExpression(v)})
				expect = append(expect, func(m wm.FeatureS) bool { return tagMap(m.Tags)[k] == v })
			}
		}
		for qi, q := range qs {
			var want, got []string
			for _, id := range sorted {
				if expect[qi](model[id]) {
					want = append(want, id.String())
				}
			}
			fs := w.FindFeatures(q)
			for fs.Next() {
				got = append(got, fs.FeatureID().String())
				if m, ok := model[fs.FeatureID()]; ok {
					if gt, wt := render(nonGeometry(fs.Feature().AllTags())), render(tagMap(m.Tags)); gt != wt {
						return vlib.Fail("%s: search %s returns %v with tags %s, the upper-most version has %s", what, q, fs.FeatureID(), gt, wt)
					}
				}
			}
			if fmt.Sprint(got) != fmt.Sprint(want) {
				return vlib.Fail("%s: search %s returns %v; merging the layers with the upper one taking precedence gives %v", what, q, got, want)
			}
		}
	}
	out := vlib.Outcome{NonTrivial: shadowedDiffers, Classes: []string{"upper=" + c.UpperKind, "base=" + c.BaseKind}}
	if shadowedArea {
		out.Classes = append(out.Classes, "shadowed-area")
	}
	if viaTags {
		out.Classes = append(out.Classes, "version-made-by-tag-edits")
	}
	return out
}

func TestProp(t *testing.T) {
	vlib.Run(t, vlib.Config{ID: "C16", Name: "overlay-shadowing", CaseTimeout: 120e9,
		Rule: "a generated valid base (basic, BasicMutableWorld or compact) and an upper layer of 1-6 features: new points, and other versions of base points (other tags, optionally moved), relations (other tags), open paths (other tags, with copies of their points) and areas over paths (other tags, with copies of their paths and points); layered with ingest.NewOverlayWorld over an upper world of any kind, or added to a MutableOverlayWorld over the base (with AddFeature, or with RemoveTag/AddTag where a version differs only in tags); oracle: union of the layers with upper precedence for lookup, existence, locations, enumeration (each ID once, upper version), the areas over each point (each once, upper version), the set of paths Traverse leaves each point along, and Keyed/Tagged searches (ordered, no duplicates, upper version decides and is returned); non-trivial = a shadowed ID whose two versions differ in tags or location"},
		gen, check)
}
