// C23: evaluating a request never crashes the server.
package c23

import (
	"context"
	"fmt"
	"math"
	"os"
	"reflect"
	"runtime"
	"runtime/debug"
	"sort"
	"strings"
	"sync"
	"testing"
	"time"

	"diagonal.works/b6"
	"diagonal.works/b6/api"
	"diagonal.works/b6/api/functions"
	b6grpc "diagonal.works/b6/grpc"
	"diagonal.works/b6/ingest"
	pb "diagonal.works/b6/proto"
	"github.com/golang/geo/s2"
	"google.golang.org/protobuf/proto"
	"pgregory.net/rapid"
	"verif/vlib"
	"verif/wm"
)

// E is an expression a client can send.
type E struct {
	K      string   `json:"k"` // call sym lam int float str bool id tag point query nil
	Name   string   `json:"name,omitempty"`
	Args   []E      `json:"args,omitempty"`
	Fn     *E       `json:"fn,omitempty"` // call: nil means the symbol Name
	Params []string `json:"params,omitempty"`
	Body   *E       `json:"body,omitempty"`
	I      int      `json:"i,omitempty"`
	F      string   `json:"f,omitempty"` // float, as text so that NaN and infinities survive
	S      string   `json:"s,omitempty"`
	B      bool     `json:"b,omitempty"`
	ID     *wm.FID  `json:"id,omitempty"`
	Key    string   `json:"key,omitempty"`
	LL     *wm.LL   `json:"ll,omitempty"`
	Query  *Q       `json:"query,omitempty"`
}

type Q struct {
	K      string  `json:"k"` // all keyed tagged typed and or cap feature
	Key    string  `json:"key,omitempty"`
	Value  string  `json:"value,omitempty"`
	Type   int     `json:"type,omitempty"`
	Sub    []Q     `json:"sub,omitempty"`
	LL     *wm.LL  `json:"ll,omitempty"`
	Radius float64 `json:"radius,omitempty"`
	ID     *wm.FID `json:"id,omitempty"`
}

type Case struct {
	E E `json:"e"`
}

// ---------------------------------------------------------------------------
// the world requests are evaluated against

const nsNode, nsWay, nsRel = string(b6.NamespaceOSMNode), string(b6.NamespaceOSMWay), string(b6.NamespaceOSMRelation)

func ll(lat, lng int32) *wm.LL { return &wm.LL{Lat: lat, Lng: lng} }

func node(v uint64) wm.FID { return wm.FID{T: 0, NS: nsNode, V: v} }

func path(id uint64, tags []wm.TagS, nodes ...uint64) wm.FeatureS {
	f := wm.FeatureS{ID: wm.FID{T: 1, NS: nsWay, V: id}, Tags: tags}
	for _, n := range nodes {
		r := node(n)
		f.Path = append(f.Path, wm.PathEl{Ref: &r})
	}
	return f
}

var worldFeatures = []wm.FeatureS{
	{ID: node(1), Point: ll(515350000, -1250000), Tags: []wm.TagS{{K: "#amenity", V: "cafe"}, {K: "name", V: "Caf\xe9 \xff"}, {K: "capacity", V: "12"}, {K: "ele", V: "x"}}},
	{ID: node(2), Point: ll(515350000, -1240000)},
	{ID: node(3), Point: ll(515358000, -1240000), Tags: []wm.TagS{{K: "entrance", V: "main"}}},
	{ID: node(4), Point: ll(515358000, -1250000)},
	{ID: node(5), Point: ll(515365000, -1245000), Tags: []wm.TagS{{K: "#amenity", V: "school"}}},
	{ID: node(6), Point: ll(515340000, -1245000)},
	path(10, []wm.TagS{{K: "#highway", V: "residential"}, {K: "lanes", V: "2"}}, 1, 2),
	path(11, []wm.TagS{{K: "#highway", V: "footway"}}, 2, 3, 5),
	path(12, []wm.TagS{{K: "#highway", V: "primary"}, {K: "oneway", V: "yes"}}, 6, 1),
	path(13, nil, 1, 2, 3, 4, 1),
	{ID: wm.FID{T: 2, NS: nsWay, V: 13}, Tags: []wm.TagS{{K: "#building", V: "yes"}, {K: "building:levels", V: "3"}}, Polys: []wm.PolyS{{Paths: []wm.FID{{T: 1, NS: nsWay, V: 13}}}}},
	{ID: wm.FID{T: 2, NS: "diagonal.works/test", V: 1}, Tags: []wm.TagS{{K: "#landuse", V: "grass"}}, Polys: []wm.PolyS{{Loops: [][]wm.LL{{{Lat: 515340000, Lng: -1260000}, {Lat: 515340000, Lng: -1255000}, {Lat: 515345000, Lng: -1255000}, {Lat: 515345000, Lng: -1260000}}}}}},
	{ID: wm.FID{T: 3, NS: nsRel, V: 20}, Tags: []wm.TagS{{K: "type", V: "route"}}, Members: []wm.MemberS{{ID: wm.FID{T: 1, NS: nsWay, V: 10}, Role: "forward"}, {ID: node(5)}}},
}

var presentIDs, otherIDs []wm.FID

func init() {
	for _, f := range worldFeatures {
		presentIDs = append(presentIDs, f.ID)
	}
	presentIDs = append(presentIDs, wm.FID{T: 4, NS: "diagonal.works/test", V: 30})
	otherIDs = []wm.FID{node(999), {T: 2, NS: nsWay, V: 999}, {T: 3, NS: nsRel, V: 999}, {T: 4, NS: "diagonal.works/test", V: 999}, {T: 1, NS: "", V: 0}, {T: 0, NS: nsNode, V: math.MaxUint64}}
}

var (
	worldOnce sync.Once
	world     b6.World
	worldErr  error
)

func baseWorld() (b6.World, error) {
	worldOnce.Do(func() {
		fs := wm.Features(worldFeatures)
		c := &ingest.CollectionFeature{CollectionID: b6.CollectionID{Namespace: "diagonal.works/test", Value: 30}, Tags: b6.Tags{{Key: "#kind", Value: b6.NewStringExpression("list")}}}
		c.Keys = []interface{}{node(1).ID(), node(5).ID(), node(999).ID()}
		c.Values = []interface{}{1, 2, 3}
		fs = append(fs, c)
		o := ingest.BuildOptions{Cores: 1}
		world, worldErr = ingest.NewWorldFromSource(ingest.MemoryFeatureSource(fs), &o)
	})
	return world, worldErr
}

// ---------------------------------------------------------------------------
// the generator: arguments chosen by each function's reflected parameter types

var functionNames []string

func init() {
	for n := range functions.Functions() {
		functionNames = append(functionNames, n)
	}
	sort.Strings(functionNames)
}

var strings_ = []string{"", "name", "#highway", "#amenity", "capacity", "walking", "bus", "path", "area", "bogus", "487604", "X", "4876044", `{"type":"Point","coordinates":[-0.125,51.535]}`, `{"type":"FeatureCollection","features":[]}`, `{`, "/tmp/nonexistent.geojson", "diagonal.works/test", "é"}
var floats = []string{"0", "1", "-1", "0.5", "50", "500", "1e9", "-1e9", "NaN", "+Inf", "-Inf", "1e-9"}
var ints = []int{0, 1, -1, 2, 3, 12, -2, 30, 100, 1 << 20, math.MaxInt32, math.MinInt64}

type gen struct {
	t     *rapid.T
	scope []string
	// levels: ints are s2 cell levels, which are kept where the honest work they ask
	// for is small (a covering at level 30 of a square kilometre has 10^12 cells)
	levels bool
	// spacing: floats are distances between sampled points, not below 5 m when positive
	spacing bool
}

func (g *gen) pick(label string, n int) int { return rapid.IntRange(0, n-1).Draw(g.t, label) }

func (g *gen) id() E {
	ids := presentIDs
	if g.pick("absent", 4) == 0 {
		ids = otherIDs
	}
	id := ids[g.pick("id", len(ids))]
	return E{K: "id", ID: &id}
}

func (g *gen) point() E {
	l := wm.LL{Lat: 515350000 + int32(rapid.IntRange(-20000, 20000).Draw(g.t, "dlat")), Lng: -1245000 + int32(rapid.IntRange(-20000, 20000).Draw(g.t, "dlng"))}
	if g.pick("farpoint", 8) == 0 {
		l = wm.LL{Lat: rapid.SampledFrom([]int32{900000000, -900000000, 0}).Draw(g.t, "lat"), Lng: rapid.SampledFrom([]int32{1800000000, -1800000000, 0}).Draw(g.t, "lng")}
	}
	return E{K: "point", LL: &l}
}

func (g *gen) query(depth int) Q {
	kinds := []string{"all", "keyed", "tagged", "cap", "feature"}
	if depth > 0 {
		kinds = append(kinds, "typed", "and", "or")
	}
	q := Q{K: kinds[g.pick("qkind", len(kinds))]}
	switch q.K {
	case "keyed", "tagged":
		q.Key = rapid.SampledFrom([]string{"#highway", "#amenity", "#building", "name", ""}).Draw(g.t, "key")
		q.Value = rapid.SampledFrom([]string{"cafe", "residential", "yes", ""}).Draw(g.t, "value")
	case "typed":
		q.Type = g.pick("type", 6)
		q.Sub = []Q{g.query(depth - 1)}
	case "and", "or":
		for i, n := 0, g.pick("nsub", 4); i < n; i++ {
			q.Sub = append(q.Sub, g.query(depth-1))
		}
	case "cap":
		q.LL = g.point().LL
		q.Radius = rapid.SampledFrom([]float64{0, 1, 100, 5000, -1}).Draw(g.t, "radius")
	case "feature":
		q.ID = g.id().ID
	}
	return q
}

func call(name string, args ...E) E { return E{K: "call", Name: name, Args: args} }
func str(s string) E                { return E{K: "str", S: s} }
func num(i int) E                   { return E{K: "int", I: i} }

func (g *gen) str() E { return str(strings_[g.pick("str", len(strings_))]) }
func (g *gen) int() E {
	if g.levels {
		return num(rapid.SampledFrom([]int{0, 1, 8, 12, 14, 15, -1}).Draw(g.t, "level"))
	}
	return num(ints[g.pick("int", len(ints))])
}
func (g *gen) float() E {
	if g.spacing {
		return E{K: "float", F: rapid.SampledFrom([]string{"0", "-1", "NaN", "5", "50", "1e9", "+Inf"}).Draw(g.t, "spacing")}
	}
	return E{K: "float", F: floats[g.pick("float", len(floats))]}
}

func (g *gen) collection(depth int, element func() E) E {
	var args []E
	for i, n := 0, g.pick("nitems", 4); i < n; i++ {
		key := num(i)
		if g.pick("idkey", 3) == 0 {
			key = g.id()
		}
		args = append(args, call("pair", key, element()))
	}
	return call("collection", args...)
}

func (g *gen) lambda(depth int, params int, body func() E) E {
	names := []string{"a", "b", "c"}[:params]
	saved := g.scope
	g.scope = append(append([]string{}, g.scope...), names...)
	b := body()
	g.scope = saved
	return E{K: "lam", Params: names, Body: &b}
}

// any generates a value of an arbitrary kind.
func (g *gen) any(depth int) E {
	if len(g.scope) > 0 && g.pick("usevar", 3) == 0 {
		return E{K: "sym", Name: g.scope[g.pick("var", len(g.scope))]}
	}
	switch g.pick("any", 14) {
	case 0:
		return g.int()
	case 1:
		return g.float()
	case 2:
		return g.str()
	case 3:
		return g.id()
	case 4:
		return g.point()
	case 5:
		q := g.query(1)
		return E{K: "query", Query: &q}
	case 6:
		return E{K: "tag", Key: "#amenity", S: "cafe"}
	case 7:
		return E{K: "bool", B: g.pick("bool", 2) == 0}
	case 8:
		return E{K: "nil"}
	case 9:
		return call("pair", g.int(), g.str())
	case 10:
		if depth > 0 {
			return g.collection(depth-1, func() E { return g.any(depth - 1) })
		}
	case 11:
		if depth > 0 {
			return g.lambda(depth-1, g.pick("nparams", 3), func() E { return g.any(depth - 1) })
		}
	case 12:
		return E{K: "sym", Name: functionNames[g.pick("fnsym", len(functionNames))]}
	}
	if depth > 0 {
		return g.callOf(functionNames[g.pick("fn", len(functionNames))], depth-1)
	}
	return g.int()
}

// producers of expressions by result type
var producers map[string][]string

func init() {
	producers = map[string][]string{}
	for _, n := range functionNames {
		out := reflect.TypeOf(functions.Functions()[n]).Out(0).String()
		producers[out] = append(producers[out], n)
	}
}

// of generates an argument for a parameter of the given Go type; one time in
// ten it is something else.
func (g *gen) of(t reflect.Type, depth int) E {
	if g.levels && t.String() == "b6.Area" {
		// always one of the small areas: a covering is as large as its area allows
		if g.pick("smallarea", 2) == 0 {
			return call("find-area", g.id())
		}
		return call("cap-polygon", g.point(), E{K: "float", F: "50"})
	}
	if g.levels && t.String() == "b6.Geometry" {
		// a point or feature near the world's features: the tiles of a point lying exactly on
		// the boundary of an s2 face are those of the whole face
		if g.pick("nearfeature", 2) == 0 {
			return call("find-feature", g.id())
		}
		l := wm.LL{Lat: 515350000 + int32(rapid.IntRange(-20000, 20000).Draw(g.t, "dlat")), Lng: -1245000 + int32(rapid.IntRange(-20000, 20000).Draw(g.t, "dlng"))}
		return E{K: "point", LL: &l}
	}
	if g.levels && t.Kind() == reflect.Int {
		return g.int() // a cell level, always one of the small ones
	}
	if g.spacing && t.Kind() == reflect.Float64 {
		return g.float()
	}
	if g.pick("mismatch", 10) == 0 {
		return g.any(depth)
	}
	if len(g.scope) > 0 && g.pick("usevar", 4) == 0 {
		return E{K: "sym", Name: g.scope[g.pick("var", len(g.scope))]}
	}
	name := t.String()
	// a call of a library function returning this type
	if ps := producers[name]; len(ps) > 0 && depth > 0 && g.pick("producer", 3) == 0 {
		return g.callOf(ps[g.pick("producerfn", len(ps))], depth-1)
	}
	feature := func() E {
		f := []string{"find-feature", "find-feature", "find-area", "find-relation", "find-collection"}
		return call(f[g.pick("finder", len(f))], g.id())
	}
	geometry := func() E {
		switch g.pick("geometry", 5) {
		case 0:
			return feature()
		case 1:
			return call("ll", g.float(), g.float())
		case 2:
			return call("centroid", feature())
		}
		return g.point()
	}
	area := func() E {
		if g.levels {
			// small areas only: coverings are as large as the area allows
			if g.pick("smallarea", 2) == 0 {
				return call("find-area", g.id())
			}
			return call("cap-polygon", g.point(), E{K: "float", F: "50"})
		}
		switch g.pick("area", 4) {
		case 0:
			return call("find-area", g.id())
		case 1:
			return call("cap-polygon", g.point(), g.float())
		case 2:
			return call("s2-polygon", g.str())
		}
		return call("rectangle-polygon", g.point(), g.point())
	}
	query := func() E {
		q := g.query(2)
		return E{K: "query", Query: &q}
	}
	tag := func() E {
		if g.pick("tagkind", 3) == 0 {
			return call("get", g.id(), g.str())
		}
		return E{K: "tag", Key: rapid.SampledFrom([]string{"#amenity", "name", "capacity", ""}).Draw(g.t, "tagkey"), S: rapid.SampledFrom([]string{"cafe", "12", "1.5", "x", ""}).Draw(g.t, "tagvalue")}
	}
	change := func() E {
		switch g.pick("change", 4) {
		case 0:
			return call("remove-tag", g.id(), g.str())
		case 1:
			return call("add-point", g.point(), g.id(), g.collection(0, tag))
		case 2:
			if depth > 0 {
				return call("merge-changes", g.collection(depth-1, func() E { return call("add-tag", g.id(), tag()) }))
			}
		}
		return call("add-tag", g.id(), tag())
	}
	switch {
	case t.Kind() == reflect.Int:
		return g.int()
	case t.Kind() == reflect.Float64:
		return g.float()
	case t.Kind() == reflect.String:
		return g.str()
	case t.Kind() == reflect.Bool:
		return E{K: "bool", B: g.pick("bool", 2) == 0}
	case name == "b6.Number":
		if g.pick("numkind", 2) == 0 {
			return g.int()
		}
		return g.float()
	case name == "b6.FeatureID" || name == "b6.CollectionID" || name == "b6.RelationID":
		return g.id()
	case name == "b6.Identifiable":
		if g.pick("identifiable", 2) == 0 {
			return feature()
		}
		return g.id()
	case name == "b6.Feature" || name == "b6.AreaFeature":
		return feature()
	case name == "b6.Geometry":
		return geometry()
	case name == "b6.Area":
		return area()
	case name == "b6.Query":
		return query()
	case name == "b6.Tag":
		return tag()
	case name == "api.Pair":
		return call("pair", g.any(depth), g.any(depth))
	case name == "ingest.Change":
		return change()
	case name == "geojson.GeoJSON":
		if g.pick("geojson", 2) == 0 {
			return call("to-geojson", geometry())
		}
		return call("parse-geojson", g.str())
	case name == "b6.Expression":
		return g.any(depth)
	case t.Kind() == reflect.Func || name == "api.Callable":
		n := 1
		if t.Kind() == reflect.Func {
			n = t.NumIn() - 1
		}
		if g.pick("arity", 6) == 0 {
			n = g.pick("otherarity", 3)
		}
		if g.pick("fnsym", 4) == 0 {
			return E{K: "sym", Name: functionNames[g.pick("fn", len(functionNames))]}
		}
		return g.lambda(depth, n, func() E {
			if depth > 0 && g.pick("callbody", 2) == 0 {
				return g.callOf(functionNames[g.pick("fn", len(functionNames))], depth-1)
			}
			return g.any(depth - 1)
		})
	case strings.HasPrefix(name, "b6.Collection[") || name == "b6.UntypedCollection":
		element := func() E { return g.any(depth - 1) }
		switch g.pick("elementkind", 4) {
		case 0:
			element = g.int
		case 1:
			element = g.float
		}
		for suffix, f := range map[string]func() E{
			"b6.Tag]": tag, "b6.Feature]": feature, "b6.Identifiable]": g.id, "b6.FeatureID]": g.id, "b6.Geometry]": geometry, "b6.Area]": area, ",int]": g.int,
			",float64]": g.float, ",string]": g.str, "ingest.Change]": change, "b6.UntypedCollection]": func() E { return g.collection(0, g.int) },
		} {
			if strings.HasSuffix(name, suffix) {
				element = f
			}
		}
		switch g.pick("collection", 6) {
		case 0:
			return call("find", query())
		case 1:
			return call("all-tags", g.id())
		case 2:
			return call("take", g.collection(depth-1, element), g.int())
		}
		return g.collection(depth-1, element)
	case t.Kind() == reflect.Interface:
		return g.any(depth)
	}
	return g.any(depth)
}

func (g *gen) callOf(name string, depth int) E {
	f := reflect.TypeOf(functions.Functions()[name])
	var args []E
	n := f.NumIn() - 1
	saved := g.levels
	g.levels = strings.HasPrefix(name, "s2-") || name == "tile-paths"
	savedSpacing := g.spacing
	g.spacing = strings.HasPrefix(name, "sample-points")
	defer func() { g.levels, g.spacing = saved, savedSpacing }()
	for i := 0; i < n; i++ {
		t := f.In(i + 1)
		if f.IsVariadic() && i == n-1 {
			for j, m := 0, g.pick("nvariadic", 4); j < m; j++ {
				if name == "collection" {
					args = append(args, call("pair", g.any(depth), g.any(depth)))
				} else {
					args = append(args, g.of(t.Elem(), depth))
				}
			}
			break
		}
		args = append(args, g.of(t, depth))
	}
	switch g.pick("argcount", 12) {
	case 0:
		if len(args) > 0 {
			args = args[:len(args)-1] // a partial application
		}
	case 1:
		args = append(args, g.any(0))
	}
	return call(name, args...)
}

func generate(t *rapid.T) Case {
	g := &gen{t: t}
	root := functionNames[g.pick("root", len(functionNames))]
	return Case{E: g.callOf(root, rapid.IntRange(0, 3).Draw(t, "depth"))}
}

// ---------------------------------------------------------------------------

var featureTypes = []b6.FeatureType{b6.FeatureTypePoint, b6.FeatureTypePath, b6.FeatureTypeArea, b6.FeatureTypeRelation, b6.FeatureTypeCollection, b6.FeatureTypeExpression}

func (q Q) build() (b6.Query, bool) {
	switch q.K {
	case "all":
		return b6.All{}, true
	case "keyed":
		return b6.Keyed{Key: q.Key}, true
	case "tagged":
		return b6.Tagged{Key: q.Key, Value: b6.NewStringExpression(q.Value)}, true
	case "typed":
		if len(q.Sub) != 1 || q.Type < 0 || q.Type >= len(featureTypes) {
			return nil, false
		}
		s, ok := q.Sub[0].build()
		return b6.Typed{Type: featureTypes[q.Type], Query: s}, ok
	case "and", "or":
		var subs []b6.Query
		for _, s := range q.Sub {
			b, ok := s.build()
			if !ok {
				return nil, false
			}
			subs = append(subs, b)
		}
		if q.K == "and" {
			return b6.Intersection(subs), true
		}
		return b6.Union(subs), true
	case "cap":
		if q.LL == nil || math.IsNaN(q.Radius) || math.Abs(q.Radius) > 1e7 {
			return nil, false
		}
		return b6.NewIntersectsCap(s2.CapFromCenterAngle(q.LL.Point(), b6.MetersToAngle(q.Radius))), true
	case "feature":
		if q.ID == nil {
			return nil, false
		}
		return b6.IntersectsFeature{ID: q.ID.ID()}, true
	}
	return nil, false
}

func (e E) build(n *int) (b6.Expression, bool) {
	*n++
	switch e.K {
	case "call":
		f := b6.NewSymbolExpression(e.Name)
		if e.Fn != nil {
			var ok bool
			if f, ok = e.Fn.build(n); !ok {
				return f, false
			}
		} else if e.Name == "" {
			return f, false
		}
		args := make([]b6.Expression, 0, len(e.Args))
		for _, a := range e.Args {
			b, ok := a.build(n)
			if !ok {
				return b, false
			}
			args = append(args, b)
		}
		return b6.NewCallExpression(f, args), true
	case "sym":
		return b6.NewSymbolExpression(e.Name), e.Name != ""
	case "lam":
		if e.Body == nil {
			return b6.Expression{}, false
		}
		b, ok := e.Body.build(n)
		return b6.NewLambdaExpression(append([]string{}, e.Params...), b), ok
	case "int":
		return b6.NewIntExpression(e.I), true
	case "float":
		f := map[string]float64{"NaN": math.NaN(), "+Inf": math.Inf(1), "-Inf": math.Inf(-1)}
		if v, ok := f[e.F]; ok {
			return b6.NewFloatExpression(v), true
		}
		var v float64
		if _, err := fmt.Sscanf(e.F, "%g", &v); err != nil {
			return b6.Expression{}, false
		}
		return b6.NewFloatExpression(v), true
	case "str":
		return b6.NewStringExpression(e.S), true
	case "bool":
		return b6.Expression{AnyExpression: b6.BoolExpression(e.B)}, true
	case "id":
		if e.ID == nil {
			return b6.Expression{}, false
		}
		return b6.NewFeatureIDExpression(e.ID.ID()), true
	case "tag":
		return b6.Expression{AnyExpression: b6.TagExpression{Key: e.Key, Value: b6.NewStringExpression(e.S)}}, true
	case "point":
		if e.LL == nil {
			return b6.Expression{}, false
		}
		return b6.NewPointExpressionFromLatLng(e.LL.S2()), true
	case "query":
		if e.Query == nil {
			return b6.Expression{}, false
		}
		q, ok := e.Query.build()
		return b6.NewQueryExpression(q), ok
	case "nil":
		return b6.Expression{AnyExpression: b6.NilExpression{}}, true
	}
	return b6.Expression{}, false
}

// names lists the library functions the expression calls or mentions.
func (e E) names(out map[string]bool) {
	if (e.K == "call" || e.K == "sym") && e.Name != "" {
		out[e.Name] = true
	}
	if e.Fn != nil {
		e.Fn.names(out)
	}
	if e.Body != nil {
		e.Body.names(out)
	}
	for _, a := range e.Args {
		a.names(out)
	}
}

// iterate consumes a result as a client's response would: collections are lazy,
// so much of a request's work happens while the result is read.
func iterate(v interface{}, depth int) {
	c, ok := v.(b6.UntypedCollection)
	if !ok || depth > 2 {
		return
	}
	i := c.BeginUntyped()
	for n := 0; n < 2000; n++ {
		ok, err := i.Next()
		if !ok || err != nil {
			return
		}
		iterate(i.Value(), depth+1)
	}
}

func check(c Case) vlib.Outcome {
	nodes := 0
	e, ok := c.E.build(&nodes)
	if !ok || nodes > 150 {
		return vlib.Outcome{Skip: true}
	}
	used := map[string]bool{}
	c.E.names(used)
	for name := range used {
		if sig := "c23-" + name; vlib.Known(sig) {
			return vlib.Excluded(sig)
		}
	}
	w, err := baseWorld()
	if err != nil {
		return vlib.Fail("building the world failed: %v", err)
	}
	what, _ := api.UnparseExpression(e)
	// 1. the evaluator, reading lazy results to the end
	var panicked interface{}
	var evalErr error
	func() {
		defer func() { panicked = recover() }()
		ctx := functions.NewContext(ingest.NewMutableOverlayWorld(w))
		ctx.Worlds = &ingest.MutableWorlds{Base: w}
		ctx.Cores = 2
		var v interface{}
		if v, evalErr = api.Evaluate(e, ctx); evalErr == nil {
			iterate(v, 0)
		}
	}()
	if panicked != nil {
		return vlib.Fail("evaluating %s panics: %v", what, panicked)
	}
	// 2. the gRPC handler: proto decoding, simplification, applying changes, encoding the result
	p, err := e.ToProto()
	if err != nil {
		return vlib.Outcome{Skip: true, Classes: []string{"skipped:no-proto-form"}}
	}
	wire, err := proto.Marshal(&pb.EvaluateRequestProto{Request: p, Version: b6.ApiVersion})
	if err != nil {
		return vlib.Outcome{Skip: true, Classes: []string{"skipped:no-wire-form"}}
	}
	var request pb.EvaluateRequestProto
	if err := proto.Unmarshal(wire, &request); err != nil {
		return vlib.Fail("the request doesn't unmarshal: %v", err)
	}
	var lock sync.RWMutex
	service := b6grpc.NewB6Service(&ingest.MutableWorlds{Base: w}, api.Options{Cores: 2}, &lock)
	var serveErr error
	func() {
		defer func() { panicked = recover() }()
		_, serveErr = service.Evaluate(context.Background(), &request)
	}()
	if panicked != nil {
		return vlib.Fail("the gRPC handler panics on %s: %v", what, panicked)
	}
	// the handler gives its lock back
	if !lock.TryLock() {
		return vlib.Fail("the gRPC handler returns from %s still holding its lock", what)
	}
	lock.Unlock()
	out := vlib.Outcome{NonTrivial: evalErr == nil, Classes: []string{"root=" + c.E.Name}}
	if evalErr != nil {
		out.Classes = append(out.Classes, "evaluation-error")
	}
	if serveErr == nil {
		out.Classes = append(out.Classes, "served")
	}
	return out
}

func TestProp(t *testing.T) {
	vlib.Run(t, vlib.Config{ID: "C23", Name: "requests", CaseTimeout: 60e9,
		Rule: "expression trees to depth 0-3 rooted at each of the registered functions, arguments generated from the functions' reflected parameter types (ints, floats incl. NaN/inf/negative, strings, present/absent/invalid feature IDs, features, geometries, areas, queries, tags, pairs, empty and non-empty collections of each element type, lambdas and function symbols of right and wrong arity, changes, GeoJSON), one argument in ten of another kind, one call in six with a missing or extra argument; evaluated against a small world (street network, building, relation, collection, a tag value that isn't UTF-8) by api.Evaluate with the lazy result read to the end, and by the gRPC service.Evaluate on the marshalled request (fresh service per case); oracle: a value or an error, never a panic, a dead process, a held lock or a case over 60 s; non-trivial = the expression evaluates to a value"},
		generate, check)
}

// TestSurvey (VERIF_SURVEY=1) lists the distinct panic sites of many generated
// requests without stopping at the first; a development aid, not a check.
func TestSurvey(t *testing.T) {
	if os.Getenv("VERIF_SURVEY") == "" {
		t.Skip()
	}
	sites := map[string]int{}
	example := map[string]string{}
	w, _ := baseWorld()
	rapid.Check(t, func(rt *rapid.T) {
		c := generate(rt)
		nodes := 0
		e, ok := c.E.build(&nodes)
		if !ok {
			return
		}
		used := map[string]bool{}
		c.E.names(used)
		if used["map-parallel"] || used[os.Getenv("VERIF_SURVEY_SKIP")] {
			return // its workers panic in their own goroutines
		}
		what, _ := api.UnparseExpression(e)
		os.WriteFile("/tmp/survey-current.txt", []byte(what), 0644)
		timer := time.AfterFunc(20*time.Second, func() {
			fmt.Printf("SLOW %s\n", what)
			buf := make([]byte, 1<<16)
			os.Stdout.Write(buf[:runtime.Stack(buf, true)])
			os.Exit(3)
		})
		defer timer.Stop()
		run := func(f func()) {
			defer func() {
				if p := recover(); p != nil {
					site := "?"
					for _, l := range strings.Split(string(debug.Stack()), "\n") {
						if strings.Contains(l, "/repo/src/diagonal.works/b6/") && !strings.Contains(l, "vm.go") {
							site = strings.TrimSpace(l)
							if i := strings.Index(site, " +0x"); i > 0 {
								site = site[:i]
							}
							break
						}
					}
					k := site + " :: " + fmt.Sprint(p)
					if len(k) > 220 {
						k = k[:220]
					}
					sites[k]++
					if _, ok := example[k]; !ok {
						example[k] = what
					}
				}
			}()
			f()
		}
		run(func() {
			ctx := functions.NewContext(ingest.NewMutableOverlayWorld(w))
			ctx.Worlds = &ingest.MutableWorlds{Base: w}
			ctx.Cores = 2
			if v, err := api.Evaluate(e, ctx); err == nil {
				iterate(v, 0)
			}
		})
		run(func() {
			// what the gRPC handler does, without its lock (a panic while it holds the
			// write lock is fatal to the process)
			p, err := e.ToProto()
			if err != nil {
				return
			}
			expression, err := b6.ExpressionFromProto(p)
			if err != nil {
				return
			}
			mw := ingest.NewMutableOverlayWorld(w)
			ctx := functions.NewContext(mw)
			ctx.Worlds = &ingest.MutableWorlds{Base: w}
			ctx.Cores = 2
			v, err := api.Evaluate(api.Simplify(expression, ctx.FunctionSymbols), ctx)
			if err != nil {
				return
			}
			if change, ok := v.(ingest.Change); ok {
				if v, err = change.Apply(mw); err != nil {
					return
				}
			}
			if l, err := b6.FromLiteral(v); err == nil {
				if lp, err := l.ToProto(); err == nil {
					proto.Marshal(&pb.EvaluateResponseProto{Result: lp})
				}
			}
		})
	})
	var keys []string
	for k := range sites {
		keys = append(keys, k)
	}
	sort.Slice(keys, func(i, j int) bool { return sites[keys[i]] > sites[keys[j]] })
	for _, k := range keys {
		fmt.Printf("SITE %5d %s\n      e.g. %s\n", sites[k], k, example[k])
	}
}
