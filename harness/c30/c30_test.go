// C30: shortest-path search finds true shortest distances and routes.
package c30

import (
	"fmt"
	"math"
	"sort"
	"testing"

	"diagonal.works/b6"
	"diagonal.works/b6/graph"
	"pgregory.net/rapid"
	"verif/vlib"
	"verif/wm"
)

type WayS struct {
	ID     uint64    `json:"id"`
	Nodes  []int     `json:"nodes"` // indices into Nodes
	Tags   []wm.TagS `json:"tags,omitempty"`
	Factor int       `json:"factor"` // table weights: cost per hop
	Dir    int       `json:"dir"`    // table weights: 0 both directions, 1 forwards only, 2 backwards only, 3 unusable
}

type Case struct {
	Nodes   []wm.LL `json:"nodes"`
	Ways    []WayS  `json:"ways"`
	Origin  int     `json:"origin"`
	To      int     `json:"to"`
	Weights int     `json:"weights"`  // 0 simple, 1 highway, 2 car, 3 bus, 4 walking time, 5 table
	Limit   float64 `json:"limit"`    // fraction of the largest true distance if LimitAt < 0
	LimitAt int     `json:"limit_at"` // >= 0: the limit is exactly the true distance of the LimitAt'th reachable node
	Compact bool    `json:"compact"`
}

var highways = []string{"residential", "primary", "footway", "motorway", "cycleway", "construction", "path"}

func gen(t *rapid.T) Case {
	c := Case{}
	n := rapid.IntRange(2, 9).Draw(t, "nnodes")
	for i := 0; i < n; i++ {
		// a jittered grid: all locations distinct
		c.Nodes = append(c.Nodes, wm.LL{Lat: 515350000 + int32(i/3)*9000 + int32(rapid.IntRange(0, 3000).Draw(t, "dlat")), Lng: -1250000 + int32(i%3)*14000 + int32(rapid.IntRange(0, 3000).Draw(t, "dlng"))})
	}
	var all, used []int
	for i := 0; i < n; i++ {
		all = append(all, i)
	}
	for i, m := 0, rapid.IntRange(1, 7).Draw(t, "nways"); i < m; i++ {
		w := WayS{ID: uint64(100 + i), Factor: rapid.IntRange(0, 5).Draw(t, "factor"), Dir: rapid.SampledFrom([]int{0, 0, 0, 1, 2, 3}).Draw(t, "dir")}
		if n >= 3 && rapid.IntRange(0, 5).Draw(t, "loop") == 0 {
			// a closed way: a simple counterclockwise loop, as validation requires
			vs := rapid.Permutation(all).Draw(t, "loopnodes")[:rapid.IntRange(3, min(n, 4)).Draw(t, "looplen")]
			var clat, clng float64
			for _, v := range vs {
				clat, clng = clat+float64(c.Nodes[v].Lat), clng+float64(c.Nodes[v].Lng)
			}
			clat, clng = clat/float64(len(vs)), clng/float64(len(vs))
			sort.Slice(vs, func(i, j int) bool {
				return math.Atan2(float64(c.Nodes[vs[i]].Lat)-clat, float64(c.Nodes[vs[i]].Lng)-clng) < math.Atan2(float64(c.Nodes[vs[j]].Lat)-clat, float64(c.Nodes[vs[j]].Lng)-clng)
			})
			w.Nodes = append(append(w.Nodes, vs...), vs[0])
		} else {
			k := rapid.IntRange(2, 5).Draw(t, "len")
			prev := -1
			for j := 0; j < k; j++ {
				var v int
				if j == 0 && len(used) > 0 && rapid.IntRange(0, 3).Draw(t, "join") > 0 {
					v = rapid.SampledFrom(used).Draw(t, "joinnode") // start on the existing network
				} else {
					v = rapid.IntRange(0, n-1).Draw(t, "node")
				}
				if v == prev || (j == k-1 && v == w.Nodes[0]) {
					v = (v + 1) % n
					if v == prev || v == w.Nodes[0] {
						v = (v + 1) % n
					}
				}
				if j == k-1 && (v == prev || v == w.Nodes[0]) {
					break
				}
				w.Nodes = append(w.Nodes, v)
				prev = v
			}
		}
		used = append(used, w.Nodes...)
		switch rapid.IntRange(0, 9).Draw(t, "kind") {
		case 0: // not a highway
			w.Tags = append(w.Tags, wm.TagS{K: "#waterway", V: "river"})
		case 1:
			w.Tags = append(w.Tags, wm.TagS{K: "diagonal", V: "connection"})
		default:
			w.Tags = append(w.Tags, wm.TagS{K: "#highway", V: rapid.SampledFrom(highways).Draw(t, "highway")})
		}
		if rapid.IntRange(0, 3).Draw(t, "oneway") == 0 {
			w.Tags = append(w.Tags, wm.TagS{K: "oneway", V: rapid.SampledFrom([]string{"yes", "yes", "no"}).Draw(t, "onewayv")})
			if rapid.IntRange(0, 3).Draw(t, "onewaybus") == 0 {
				w.Tags = append(w.Tags, wm.TagS{K: "oneway:bus", V: "no"})
			}
		}
		if rapid.IntRange(0, 5).Draw(t, "access") == 0 {
			w.Tags = append(w.Tags, wm.TagS{K: "access", V: "no"})
			if rapid.Bool().Draw(t, "bus") {
				w.Tags = append(w.Tags, wm.TagS{K: "bus", V: "yes"})
			}
		}
		if rapid.IntRange(0, 2).Draw(t, "weighted") == 0 {
			w.Tags = append(w.Tags, wm.TagS{K: "diagonal:weight", V: rapid.SampledFrom([]string{"0", "0.5", "2", "10", "heavy"}).Draw(t, "weight")})
		}
		c.Ways = append(c.Ways, w)
	}
	c.Origin = rapid.IntRange(0, n-1).Draw(t, "origin")
	if len(used) > 0 && rapid.IntRange(0, 4).Draw(t, "originonnetwork") > 0 {
		c.Origin = rapid.SampledFrom(used).Draw(t, "originnode")
	}
	c.To = rapid.IntRange(0, n-1).Draw(t, "to")
	c.Weights = rapid.IntRange(0, 5).Draw(t, "weights")
	c.LimitAt = -1
	switch rapid.IntRange(0, 3).Draw(t, "limitkind") {
	case 0:
		c.Limit = 1e12
	case 1:
		c.LimitAt = rapid.IntRange(0, 8).Draw(t, "limitat")
	default:
		c.Limit = rapid.Float64Range(0, 1.2).Draw(t, "limit")
	}
	c.Compact = rapid.IntRange(0, 9).Draw(t, "compact") == 0
	return c
}

// tableWeights is a Weights with exact small integer costs and per-way
// direction rules, so that distances are exact and ties are frequent.
type tableWeights struct{ ways map[uint64]WayS }

func (w tableWeights) IsUseable(s b6.Segment) bool {
	way, ok := w.ways[s.Feature.FeatureID().Value]
	if !ok {
		return false
	}
	switch way.Dir {
	case 0:
		return true
	case 1:
		return s.Last >= s.First
	case 2:
		return s.Last <= s.First
	}
	return false
}

func (w tableWeights) Weight(s b6.Segment) float64 {
	d := s.Last - s.First
	if d < 0 {
		d = -d
	}
	return float64(w.ways[s.Feature.FeatureID().Value].Factor * d)
}

func (c Case) weights() graph.Weights {
	switch c.Weights {
	case 0:
		return graph.SimpleWeights{}
	case 1:
		return graph.SimpleHighwayWeights{}
	case 2:
		return graph.CarWeights{}
	case 3:
		return graph.BusWeights{}
	case 4:
		return graph.WalkingTimeWeights{Speed: 1.0 / graph.WalkingMetersPerSecond}
	}
	ways := map[uint64]WayS{}
	for _, w := range c.Ways {
		ways[w.ID] = w
	}
	return tableWeights{ways}
}

func nodeFID(i int) wm.FID { return wm.FID{T: 0, NS: string(b6.NamespaceOSMNode), V: uint64(i + 1)} }

func (c Case) features() []wm.FeatureS {
	var fs []wm.FeatureS
	for i, ll := range c.Nodes {
		ll := ll
		fs = append(fs, wm.FeatureS{ID: nodeFID(i), Point: &ll})
	}
	for _, w := range c.Ways {
		f := wm.FeatureS{ID: wm.FID{T: 1, NS: string(b6.NamespaceOSMWay), V: w.ID}, Tags: w.Tags}
		for _, v := range w.Nodes {
			id := nodeFID(v)
			f.Path = append(f.Path, wm.PathEl{Ref: &id})
		}
		fs = append(fs, f)
	}
	return fs
}

type edge struct {
	from, to b6.FeatureID
	via      b6.FeatureID
	first    int
	last     int
	weight   float64
}

func close(a, b float64) bool {
	return math.Abs(a-b) <= 1e-9*math.Max(1, math.Max(math.Abs(a), math.Abs(b)))
}

func check(c Case) vlib.Outcome {
	n := len(c.Nodes)
	if n < 2 || len(c.Ways) == 0 || c.Origin < 0 || c.Origin >= n || c.To < 0 || c.To >= n || c.Weights < 0 || c.Weights > 5 || math.IsNaN(c.Limit) || c.Limit < 0 {
		return vlib.Outcome{Skip: true}
	}
	ids := map[uint64]bool{}
	for _, w := range c.Ways {
		if len(w.Nodes) < 2 || ids[w.ID] || w.Factor < 0 || w.Factor > 1000 {
			return vlib.Outcome{Skip: true}
		}
		ids[w.ID] = true
		for i, v := range w.Nodes {
			if v < 0 || v >= n || (i > 0 && v == w.Nodes[i-1]) {
				return vlib.Outcome{Skip: true}
			}
		}
	}
	fs := c.features()
	var w b6.World
	var err error
	if c.Compact {
		w, err = wm.BuildCompact(fs, 1)
	} else {
		w, err = wm.BuildBasic(fs, 1, true)
	}
	if err != nil {
		return vlib.Outcome{Skip: true, Classes: []string{"skipped:invalid-network"}}
	}
	weights := c.weights()

	// The reference: the directed graph of traversable, useable segments, and
	// Bellman-Ford over it.
	var edges []edge
	points := []b6.FeatureID{}
	for i := range c.Nodes {
		id := nodeFID(i).ID()
		points = append(points, id)
		ss := w.Traverse(id)
		for ss.Next() {
			s := ss.Segment()
			if s.FirstFeatureID() != id {
				return vlib.Outcome{Skip: true, Classes: []string{"skipped:traverse-not-from-point"}}
			}
			if weights.IsUseable(s) {
				edges = append(edges, edge{from: id, to: s.LastFeatureID(), via: s.Feature.FeatureID(), first: s.First, last: s.Last, weight: weights.Weight(s)})
			}
		}
	}
	origin, to := nodeFID(c.Origin).ID(), nodeFID(c.To).ID()
	truth := map[b6.FeatureID]float64{origin: 0}
	for changed := true; changed; {
		changed = false
		for _, e := range edges {
			if d, ok := truth[e.from]; ok {
				if old, ok := truth[e.to]; !ok || d+e.weight < old {
					truth[e.to] = d + e.weight
					changed = true
				}
			}
		}
	}
	// the origin only starts a search if a useable path goes through it
	connected := false
	for _, way := range c.Ways {
		for _, v := range way.Nodes {
			if v == c.Origin {
				f := w.FindFeatureByID(wm.FID{T: 1, NS: string(b6.NamespaceOSMWay), V: way.ID}.ID())
				if p, ok := f.(b6.PhysicalFeature); ok && (weights.IsUseable(b6.Segment{Feature: p, First: 0, Last: p.GeometryLen() - 1}) || weights.IsUseable(b6.Segment{Feature: p, First: p.GeometryLen() - 1, Last: 0})) {
					connected = true
				}
			}
		}
	}
	if !connected {
		truth = map[b6.FeatureID]float64{}
	}
	var sorted []float64
	for _, d := range truth {
		sorted = append(sorted, d)
	}
	sort.Float64s(sorted)
	limit := c.Limit
	if c.LimitAt >= 0 {
		if len(sorted) == 0 {
			limit = 1
		} else {
			limit = sorted[c.LimitAt%len(sorted)]
		}
	} else if c.Limit <= 1.2 && len(sorted) > 0 {
		limit = c.Limit * (sorted[len(sorted)-1] + 1)
	}
	sameRoute := func(what string, dest b6.FeatureID, reported float64, s *graph.ShortestPathSearch) error {
		route := s.BuildRoute(dest)
		if route.Origin != origin {
			return fmt.Errorf("%s: the route to %s starts at %s, not at the origin %s", what, dest, route.Origin, origin)
		}
		previous, cost := origin, 0.0
		for i, step := range route.Steps {
			ok := false
			for _, e := range edges {
				if e.from == previous && e.to == step.Destination && e.via == step.Via && close(cost+e.weight, step.Cost) {
					ok = true
				}
			}
			if !ok {
				return fmt.Errorf("%s: step %d of the route to %s (from %s to %s via %s, cumulative cost %v after %v) is not a useable segment with that cost", what, i, dest, previous, step.Destination, step.Via, step.Cost, cost)
			}
			previous, cost = step.Destination, step.Cost
		}
		if previous != dest {
			return fmt.Errorf("%s: the route to %s ends at %s", what, dest, previous)
		}
		if !close(cost, reported) {
			return fmt.Errorf("%s: the route to %s costs %v but the reported distance is %v", what, dest, cost, reported)
		}
		path := s.BuildPath(dest)
		previous, cost = origin, 0.0
		for i, seg := range path {
			if seg.FirstFeatureID() != previous || !weights.IsUseable(seg) {
				return fmt.Errorf("%s: segment %d of the path to %s (%s %d->%d) doesn't continue from %s or isn't useable", what, i, dest, seg.Feature.FeatureID(), seg.First, seg.Last, previous)
			}
			previous, cost = seg.LastFeatureID(), cost+weights.Weight(seg)
		}
		if previous != dest || !close(cost, reported) {
			return fmt.Errorf("%s: the path to %s ends at %s with cost %v; the reported distance is %v", what, dest, previous, cost, reported)
		}
		return nil
	}

	// 1. the full search
	s := graph.NewShortestPathSearchFromPoint(origin, weights, w)
	s.ExpandSearch(limit, weights, graph.Points, w)
	got := s.PointDistances()
	for _, p := range points {
		if !connected && p == origin {
			continue // an origin off the useable network may or may not report itself
		}
		d, reported := got[p]
		reported = reported && !math.IsInf(d, 1)
		t, reachable := truth[p]
		if reported && (!reachable || !close(d, t)) {
			ts := "unreachable"
			if reachable {
				ts = fmt.Sprint(t)
			}
			return vlib.Fail("search from %s with limit %v reports %s at distance %v; its true shortest distance is %s", origin, limit, p, d, ts)
		}
		if !reported && reachable && t < limit && !close(t, limit) {
			return vlib.Fail("search from %s with limit %v doesn't report %s, whose true shortest distance is %v", origin, limit, p, t)
		}
		if reported {
			if err := sameRoute(fmt.Sprintf("search from %s with limit %v", origin, limit), p, d, s); err != nil {
				return vlib.Outcome{Err: err}
			}
		}
	}
	for p, d := range got {
		if _, ok := truth[p]; !ok && !math.IsInf(d, 1) && (connected || p != origin) {
			return vlib.Fail("search from %s with limit %v reports %s at distance %v, which can't be reached", origin, limit, p, d)
		}
	}
	routes := s.AllRoutes()
	for p, d := range got {
		if math.IsInf(d, 1) {
			continue
		}
		r, ok := routes[p]
		if !ok || (len(r.Steps) == 0) != (p == origin) || (len(r.Steps) > 0 && (r.Steps[len(r.Steps)-1].Destination != p || !close(r.Steps[len(r.Steps)-1].Cost, d))) {
			return vlib.Fail("search from %s with limit %v: AllRoutes has no route ending at %s with cost %v (%+v)", origin, limit, p, d, r)
		}
	}

	// 2. the search towards one destination
	if to != origin {
		s2 := graph.NewShortestPathSearchFromPoint(origin, weights, w)
		s2.ExpandSearchTo(to, limit, weights, w)
		d := s2.CurrentDistance(to)
		t, reachable := truth[to]
		what := fmt.Sprintf("search from %s to %s with limit %v", origin, to, limit)
		switch {
		case !math.IsInf(d, 1) && (!reachable || !close(d, t)):
			return vlib.Fail("%s reports distance %v; the true shortest distance is %v (reachable %v)", what, d, t, reachable)
		case math.IsInf(d, 1) && reachable && t < limit && !close(t, limit):
			return vlib.Fail("%s doesn't reach the destination, whose true shortest distance is %v", what, t)
		case !math.IsInf(d, 1):
			if err := sameRoute(what, to, d, s2); err != nil {
				return vlib.Outcome{Err: err}
			}
		}
		path := graph.ComputeShortestPath(origin, to, limit, weights, w)
		if (len(path) > 0) != !math.IsInf(d, 1) {
			return vlib.Fail("%s: ComputeShortestPath returns %d segments but the search distance is %v", what, len(path), d)
		}
	}

	reachedBeyondOrigin, improved := 0, false
	for p, t := range truth {
		if p != origin && t < limit {
			reachedBeyondOrigin++
		}
	}
	// a network where some node has two useable in-edges is one where the
	// first discovery needn't be the best
	in := map[b6.FeatureID]map[b6.FeatureID]bool{}
	for _, e := range edges {
		if _, ok := truth[e.from]; ok {
			if in[e.to] == nil {
				in[e.to] = map[b6.FeatureID]bool{}
			}
			in[e.to][e.from] = true
		}
	}
	for _, m := range in {
		improved = improved || len(m) > 1
	}
	out := vlib.Outcome{NonTrivial: reachedBeyondOrigin >= 2 && improved, Classes: []string{fmt.Sprintf("weights=%d", c.Weights)}}
	if !connected {
		out.Classes = append(out.Classes, "origin-not-connected")
	}
	if c.LimitAt >= 0 {
		out.Classes = append(out.Classes, "limit-at-a-true-distance")
	}
	if len(truth) > reachedBeyondOrigin+1 {
		out.Classes = append(out.Classes, "limit-cuts-network")
	}
	if c.Compact {
		out.Classes = append(out.Classes, "compact")
	}
	return out
}

func TestProp(t *testing.T) {
	vlib.Run(t, vlib.Config{ID: "C30", Name: "shortest-paths", CaseTimeout: 60e9,
		Rule: "networks of 1-7 ways (2-5 nodes each, shared nodes, loops, oneway/access/bus tags, unusable and non-highway ways, diagonal:weight factors incl. 0 and non-numeric) over 2-9 distinct nodes, in a basic or compact world; weights: Simple, SimpleHighway, Car, Bus, WalkingTime and an exact integer table with per-way direction rules; limits: unlimited, a fraction of the largest true distance, or exactly a node's true distance; oracle: Bellman-Ford over the useable Traverse segments: reported distances equal the true ones (1e-9 relative), every node under the limit is reported, BuildRoute/BuildPath/AllRoutes are chains of useable segments from the origin with cumulative costs ending at the reported distance, and ExpandSearchTo/ComputeShortestPath agree for one destination; non-trivial = at least two nodes reached beyond the origin and some node has two useable in-edges"},
		gen, check)
}
