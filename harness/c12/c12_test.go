// C12: the mutable overlay world behaves like a map of features under any edits.
package c12

import (
	"fmt"
	"sort"
	"strings"
	"testing"

	"diagonal.works/b6"
	"diagonal.works/b6/ingest"
	"pgregory.net/rapid"
	"verif/vlib"
	"verif/wm"
)

type Op struct {
	Kind    string       `json:"op"` // addtag, removetag, addfeature
	Target  int          `json:"target"`
	Key     string       `json:"key,omitempty"`
	Val     string       `json:"val,omitempty"`
	Feature *wm.FeatureS `json:"feature,omitempty"` // new feature; nil for addfeature = replace target keeping geometry
	Tags    []wm.TagS    `json:"tags,omitempty"`    // tags of the replacement
}

type Case struct {
	Base     wm.Set `json:"base"`
	BaseKind string `json:"base_kind"` // basic, compact, mutable, overlay
	Ops      []Op   `json:"ops"`
}

var plainKeys = []string{"name", "colour", "k0"}
var searchKeys = []string{"#amenity", "#highway", "@wikidata"}
var values = []string{"cafe", "red", "yes", "v1"}

func allKeys() []string { return append(append([]string{}, plainKeys...), searchKeys...) }

func genTags(t *rapid.T, label string) []wm.TagS {
	n := rapid.IntRange(0, 3).Draw(t, label+"n")
	ks := rapid.SliceOfNDistinct(rapid.SampledFrom(allKeys()), n, n, rapid.ID[string]).Draw(t, label+"keys")
	out := []wm.TagS{}
	for _, k := range ks {
		out = append(out, wm.TagS{K: k, V: rapid.SampledFrom(values).Draw(t, label+"v")})
	}
	return out
}

func gen(t *rapid.T) Case {
	c := Case{
		Base: wm.GenSet(t, wm.GenConfig{MaxPoints: 4, MaxPaths: 2, MaxLoops: 1, MaxAreas: 1, MaxRelations: 2,
			Namespaces: []string{string(b6.NamespaceOSMNode), string(b6.NamespaceOSMWay), string(b6.NamespaceOSMRelation), "diagonal.works/ns/test"},
			TagKeys:    allKeys(), TagValues: values}),
		BaseKind: rapid.SampledFrom([]string{"basic", "basic", "basic", "basic", "basic", "mutable", "mutable", "mutable", "overlay", "overlay", "overlay", "overlay", "overlay", "compact"}).Draw(t, "basekind"),
	}
	n := rapid.IntRange(1, 25).Draw(t, "nops")
	nextNew := 0
	for i := 0; i < n; i++ {
		op := Op{Target: rapid.IntRange(0, 40).Draw(t, "target")}
		switch rapid.IntRange(0, 9).Draw(t, "kind") {
		case 0, 1, 2, 3:
			op.Kind = "addtag"
			if rapid.Bool().Draw(t, "searchable") {
				op.Key = rapid.SampledFrom(searchKeys).Draw(t, "key")
			} else {
				op.Key = rapid.SampledFrom(plainKeys).Draw(t, "key")
			}
			op.Val = rapid.SampledFrom(values).Draw(t, "val")
		case 4, 5, 6:
			op.Kind = "removetag"
			op.Key = rapid.SampledFrom(allKeys()).Draw(t, "key")
		case 7:
			op.Kind = "addfeature" // replace the target, keeping its geometry
			op.Tags = genTags(t, "replacement")
		default:
			op.Kind = "addfeature" // a new point or relation
			nextNew++
			if rapid.Bool().Draw(t, "newpoint") {
				ll := wm.LL{Lat: 515400000 + int32(nextNew*977), Lng: -1300000 + int32(nextNew*1013)}
				op.Feature = &wm.FeatureS{ID: wm.FID{T: 0, NS: "diagonal.works/ns/new", V: uint64(nextNew)}, Tags: genTags(t, "newtags"), Point: &ll}
			} else {
				op.Feature = &wm.FeatureS{ID: wm.FID{T: 3, NS: "diagonal.works/ns/new", V: uint64(nextNew)}, Tags: genTags(t, "newtags")}
			}
		}
		c.Ops = append(c.Ops, op)
	}
	return c
}

type mfeature struct {
	spec wm.FeatureS
	tags map[string]string
}

func nonGeometry(tags b6.Tags) map[string]string {
	out := map[string]string{}
	for _, t := range tags {
		if t.Key == b6.PointTag || t.Key == b6.PathTag {
			continue
		}
		out[t.Key] = t.Value.String()
	}
	return out
}

func render(m map[string]string) string {
	ks := make([]string, 0, len(m))
	for k := range m {
		ks = append(ks, k)
	}
	sort.Strings(ks)
	parts := []string{}
	for _, k := range ks {
		parts = append(parts, k+"="+m[k])
	}
	return "{" + strings.Join(parts, " ") + "}"
}

func buildBase(c Case) (b6.World, error) {
	switch c.BaseKind {
	case "basic":
		return wm.BuildBasic(c.Base.Features, 1, true)
	case "compact":
		if _, err := wm.BuildBasic(c.Base.Features, 1, true); err != nil {
			return nil, err
		}
		return wm.BuildCompact(c.Base.Features, 1)
	case "mutable":
		return wm.BuildMutable(c.Base.Features)
	case "overlay":
		// half of the features in a basic world, the rest added through an overlay
		fs := wm.SortForInsertion(c.Base.Features)
		half := len(fs) / 2
		lower, err := wm.BuildBasic(fs[:half], 1, false)
		if err != nil {
			return nil, err
		}
		o := ingest.NewMutableOverlayWorld(lower)
		for _, f := range fs[half:] {
			if err := o.AddFeature(wm.ToIngest(f)); err != nil {
				return nil, err
			}
		}
		return o, nil
	}
	return nil, fmt.Errorf("bad base kind")
}

func check(c Case) vlib.Outcome {
	if len(c.Base.Features) == 0 {
		return vlib.Outcome{Skip: true}
	}
	base, err := buildBase(c)
	if err != nil {
		return vlib.Outcome{Skip: true, Classes: []string{"skipped:base-not-valid"}}
	}
	w := ingest.NewMutableOverlayWorld(base)
	model := map[b6.FeatureID]*mfeature{}
	var order []b6.FeatureID
	for _, f := range c.Base.Features {
		tags := map[string]string{}
		for _, t := range f.Tags {
			tags[t.K] = t.V
		}
		model[f.ID.ID()] = &mfeature{spec: f, tags: tags}
		order = append(order, f.ID.ID())
	}
	// the overlay must read like the base before any edit
	if err := compare(w, model, order, "before any edit"); err != nil {
		return vlib.Outcome{Err: err}
	}
	plainEdited := map[b6.FeatureID]bool{}
	searchEdited := map[b6.FeatureID]bool{}
	overwritten := map[string]bool{}
	out := vlib.Outcome{}
	for i, op := range c.Ops {
		if op.Target < 0 {
			return vlib.Outcome{Skip: true}
		}
		id := order[op.Target%len(order)]
		what := fmt.Sprintf("after op %d %s", i, op.Kind)
		inBase := base.HasFeatureWithID(id)
		switch op.Kind {
		case "addtag":
			if op.Key == "" || op.Key == b6.PointTag || op.Key == b6.PathTag {
				return vlib.Outcome{Skip: true}
			}
			what += fmt.Sprintf("(%v, %s=%s)", id, op.Key, op.Val)
			if err := w.AddTag(id, b6.Tag{Key: op.Key, Value: b6.NewStringExpression(op.Val)}); err != nil {
				return vlib.Fail("%s: AddTag on an existing feature failed: %v", what, err)
			}
			if _, ok := model[id].tags[op.Key]; ok {
				overwritten[id.String()+op.Key] = true
			}
			model[id].tags[op.Key] = op.Val
			if strings.HasPrefix(op.Key, "#") || strings.HasPrefix(op.Key, "@") {
				searchEdited[id] = true
				if plainEdited[id] && inBase {
					out.NonTrivial = true
					out.Classes = append(out.Classes, "plain-then-searchable-edit-of-base-feature")
				}
			} else {
				plainEdited[id] = true
				if searchEdited[id] && inBase {
					out.NonTrivial = true
					out.Classes = append(out.Classes, "searchable-then-plain-edit-of-base-feature")
				}
			}
		case "removetag":
			what += fmt.Sprintf("(%v, %s)", id, op.Key)
			if err := w.RemoveTag(id, op.Key); err != nil {
				return vlib.Fail("%s: RemoveTag on an existing feature failed: %v", what, err)
			}
			if overwritten[id.String()+op.Key] {
				out.NonTrivial = true
				out.Classes = append(out.Classes, "overwrite-then-remove")
			}
			delete(model[id].tags, op.Key)
		case "addfeature":
			var spec wm.FeatureS
			if op.Feature != nil {
				spec = *op.Feature
				if spec.ID.ID().Type != b6.FeatureTypePoint && spec.ID.ID().Type != b6.FeatureTypeRelation {
					return vlib.Outcome{Skip: true}
				}
			} else {
				spec = model[id].spec.Clone()
				spec.Tags = append([]wm.TagS{}, op.Tags...)
			}
			for _, t := range spec.Tags {
				if t.K == b6.PointTag || t.K == b6.PathTag || t.K == "" {
					return vlib.Outcome{Skip: true}
				}
			}
			what += fmt.Sprintf("(%v)", spec.ID.ID())
			if err := w.AddFeature(wm.ToIngest(spec)); err != nil {
				return vlib.Fail("%s: AddFeature of a valid feature failed: %v", what, err)
			}
			tags := map[string]string{}
			for _, t := range spec.Tags {
				tags[t.K] = t.V
			}
			if _, ok := model[spec.ID.ID()]; !ok {
				order = append(order, spec.ID.ID())
			}
			model[spec.ID.ID()] = &mfeature{spec: spec, tags: tags}
		default:
			return vlib.Outcome{Skip: true}
		}
		if err := compare(w, model, order, what); err != nil {
			return vlib.Outcome{Err: err}
		}
	}
	out.Classes = append(out.Classes, "base="+c.BaseKind)
	return out
}

func compare(w b6.World, model map[b6.FeatureID]*mfeature, order []b6.FeatureID, what string) error {
	for _, id := range order {
		m := model[id]
		if !w.HasFeatureWithID(id) {
			return fmt.Errorf("%s: HasFeatureWithID(%v) is false", what, id)
		}
		f := w.FindFeatureByID(id)
		if f == nil {
			return fmt.Errorf("%s: FindFeatureByID(%v) is nil", what, id)
		}
		if got := render(nonGeometry(f.AllTags())); got != render(m.tags) {
			return fmt.Errorf("%s: feature %v has tags %s, a per-feature map would hold %s", what, id, got, render(m.tags))
		}
		for _, k := range allKeys() {
			g := f.Get(k)
			v, ok := m.tags[k]
			if g.IsValid() != ok || (ok && g.Value.String() != v) {
				return fmt.Errorf("%s: feature %v Get(%s) = %q valid=%v, the map holds %q present=%v", what, id, k, g.Value.String(), g.IsValid(), v, ok)
			}
		}
	}
	// searches
	var queries []b6.Query
	expect := map[string]func(m *mfeature) bool{}
	for _, k := range searchKeys {
		k := k
		q := b6.Keyed{Key: k}
		queries = append(queries, q)
		expect[q.String()] = func(m *mfeature) bool { _, ok := m.tags[k]; return ok }
		if strings.HasPrefix(k, "#") {
			for _, v := range values {
				v := v
				q := b6.Tagged{Key: k, Value: b6.NewStringExpression(v)}
				queries = append(queries, q)
				expect[q.String()] = func(m *mfeature) bool { return m.tags[k] == v }
			}
		}
	}
	sorted := append([]b6.FeatureID{}, order...)
	sort.Slice(sorted, func(i, j int) bool { return sorted[i].Less(sorted[j]) })
	for _, q := range queries {
		var want []string
		for _, id := range sorted {
			if expect[q.String()](model[id]) {
				want = append(want, id.String())
			}
		}
		var got []string
		fs := w.FindFeatures(q)
		for fs.Next() {
			got = append(got, fs.FeatureID().String())
			if id := fs.FeatureID(); model[id] != nil {
				if gt := render(nonGeometry(fs.Feature().AllTags())); gt != render(model[id].tags) {
					return fmt.Errorf("%s: search %s returns %v with tags %s, the map holds %s", what, q, id, gt, render(model[id].tags))
				}
			}
		}
		if fmt.Sprint(got) != fmt.Sprint(want) {
			return fmt.Errorf("%s: search %s returns %v, the map gives %v", what, q, got, want)
		}
	}
	// enumeration
	seen := map[b6.FeatureID]int{}
	var eachErr error
	err := w.EachFeature(func(f b6.Feature, _ int) error {
		seen[f.FeatureID()]++
		if m := model[f.FeatureID()]; m == nil {
			eachErr = fmt.Errorf("%s: EachFeature yields %v which is not in the map", what, f.FeatureID())
		} else if got := render(nonGeometry(f.AllTags())); got != render(m.tags) && eachErr == nil {
			eachErr = fmt.Errorf("%s: EachFeature yields %v with tags %s, the map holds %s", what, f.FeatureID(), got, render(m.tags))
		}
		return nil
	}, &b6.EachFeatureOptions{Goroutines: 1})
	if err != nil {
		return fmt.Errorf("%s: EachFeature: %v", what, err)
	}
	if eachErr != nil {
		return eachErr
	}
	for _, id := range sorted {
		if seen[id] != 1 {
			return fmt.Errorf("%s: EachFeature yields %v %d times", what, id, seen[id])
		}
	}
	return nil
}

func TestProp(t *testing.T) {
	vlib.Run(t, vlib.Config{ID: "C12", Name: "overlay-map", CaseTimeout: 120e9,
		Rule: "a generated valid base of 2-4 free points plus paths, a closed path, an area and relations (as basic, compact, BasicMutableWorld or a MutableOverlayWorld holding half of the features), then 1-25 operations on a MutableOverlayWorld over it: AddTag (plain or searchable key, new or overwriting), RemoveTag (present or absent key), AddFeature (replace keeping geometry, or a new point/relation); after every step lookup, Get, existence, Keyed/Tagged searches (ordered) and enumeration are compared with a per-feature map; non-trivial = a plain edit followed by a searchable edit of the same base feature (or the reverse), or overwrite-then-remove"},
		gen, check)
}
