// C13: a rejected change leaves the world as it was.
package c13

import (
	"fmt"
	"testing"

	"diagonal.works/b6"
	"diagonal.works/b6/ingest"
	"pgregory.net/rapid"
	"verif/vlib"
	"verif/wm"
)

type Edit struct {
	Kind   string `json:"op"` // addtag, removetag, touch (re-add the same feature, which copies it into the edited layer)
	Target int    `json:"target"`
	Key    string `json:"key,omitempty"`
	Val    string `json:"val,omitempty"`
}

type Case struct {
	Set       wm.Set `json:"set"`
	WorldKind string `json:"world"` // mutable, overlay
	Prefix    []Edit `json:"prefix"`
	Attempt   string `json:"attempt"` // family
	Pick      int    `json:"pick"`    // which candidate feature the attempt targets
	Merged    bool   `json:"merged"`  // wrap in a MergedChange with valid parts around it
	FailAt    int    `json:"fail_at"` // position of the failing part in the merged change
	FailPart  string `json:"fail_part,omitempty"` // merged only: "" = the invalid replacement, addtags-missing / removetags-missing = tag parts naming a feature that is not in the world
	FailKey   string `json:"fail_key,omitempty"`
}

var families = []string{"shorten-open", "open-closed", "reverse-closed", "missing-point", "area-missing-path", "shorten-closed"}
var keys = []string{"name", "#amenity", "#highway", "@wikidata"}
var vals = []string{"cafe", "yes", "v1"}

func gen(t *rapid.T) Case {
	c := Case{
		Set: wm.GenSet(t, wm.GenConfig{MaxPoints: 4, MaxPaths: 3, MaxLoops: 2, MaxAreas: 2, MaxRelations: 2,
			Namespaces: []string{string(b6.NamespaceOSMNode), string(b6.NamespaceOSMWay), string(b6.NamespaceOSMRelation)},
			TagKeys:    keys, TagValues: vals}),
		WorldKind: rapid.SampledFrom([]string{"mutable", "overlay", "overlay"}).Draw(t, "world"),
		Pick:      rapid.IntRange(0, 20).Draw(t, "pick"),
		Merged:    rapid.IntRange(0, 3).Draw(t, "merged") == 0,
		FailAt:    rapid.IntRange(0, 3).Draw(t, "failat"),
	}
	if c.Merged {
		c.FailPart = rapid.SampledFrom([]string{"", "", "addtags-missing", "removetags-missing"}).Draw(t, "failpart")
		c.FailKey = rapid.SampledFrom(keys).Draw(t, "failkey")
	}
	// choose among the families the generated set has a candidate for
	var available []string
	for _, f := range families {
		probe := c
		probe.Attempt = f
		if spec, _ := attempt(probe); spec != nil {
			available = append(available, f)
		}
	}
	c.Attempt = rapid.SampledFrom(available).Draw(t, "attempt")
	n := rapid.IntRange(0, 6).Draw(t, "nprefix")
	for i := 0; i < n; i++ {
		e := Edit{Target: rapid.IntRange(0, 40).Draw(t, "target")}
		switch rapid.IntRange(0, 3).Draw(t, "kind") {
		case 0:
			e.Kind, e.Key, e.Val = "addtag", rapid.SampledFrom(keys).Draw(t, "key"), rapid.SampledFrom(vals).Draw(t, "val")
		case 1:
			e.Kind, e.Key = "removetag", rapid.SampledFrom(keys).Draw(t, "key")
		default:
			e.Kind = "touch"
		}
		c.Prefix = append(c.Prefix, e)
	}
	return c
}

func isClosed(f wm.FeatureS) bool {
	n := len(f.Path)
	return n > 2 && f.Path[0].Ref != nil && f.Path[n-1].Ref != nil && *f.Path[0].Ref == *f.Path[n-1].Ref
}

// attempt builds the invalid change for the family, or nil if the set has no candidate.
func attempt(c Case) (*wm.FeatureS, b6.FeatureID) {
	var open, closed, closedUnderArea []wm.FeatureS
	under := map[b6.FeatureID]bool{}
	for _, f := range c.Set.Features {
		for _, p := range f.Polys {
			for _, id := range p.Paths {
				under[id.ID()] = true
			}
		}
	}
	for _, f := range c.Set.Features {
		if f.ID.ID().Type != b6.FeatureTypePath {
			continue
		}
		if isClosed(f) {
			closed = append(closed, f)
			if under[f.ID.ID()] {
				closedUnderArea = append(closedUnderArea, f)
			}
		} else {
			open = append(open, f)
		}
	}
	pick := func(fs []wm.FeatureS) *wm.FeatureS {
		if len(fs) == 0 {
			return nil
		}
		f := fs[c.Pick%len(fs)].Clone()
		return &f
	}
	absentPoint := wm.FID{T: 0, NS: string(b6.NamespaceOSMNode), V: 777777}
	absentPath := wm.FID{T: 1, NS: string(b6.NamespaceOSMWay), V: 777777}
	switch c.Attempt {
	case "shorten-open":
		if f := pick(open); f != nil {
			f.Path = f.Path[:1]
			return f, f.ID.ID()
		}
	case "open-closed":
		if f := pick(closedUnderArea); f != nil {
			f.Path = f.Path[:len(f.Path)-1]
			return f, f.ID.ID()
		}
	case "reverse-closed":
		if f := pick(closed); f != nil {
			for a, b := 0, len(f.Path)-1; a < b; a, b = a+1, b-1 {
				f.Path[a], f.Path[b] = f.Path[b], f.Path[a]
			}
			return f, f.ID.ID()
		}
	case "missing-point":
		if f := pick(append(open, closed...)); f != nil {
			f.Path[1] = wm.PathEl{Ref: &absentPoint}
			return f, f.ID.ID()
		}
	case "area-missing-path":
		f := wm.FeatureS{ID: wm.FID{T: 2, NS: string(b6.NamespaceOSMWay), V: 888888}, Polys: []wm.PolyS{{Paths: []wm.FID{absentPath}}}}
		for _, g := range c.Set.Features {
			if g.ID.ID().Type == b6.FeatureTypeArea && c.Pick%2 == 0 {
				f = g.Clone()
				f.Polys = append([]wm.PolyS{}, f.Polys...)
				f.Polys[0] = wm.PolyS{Paths: []wm.FID{absentPath}}
				break
			}
		}
		return &f, f.ID.ID()
	case "shorten-closed":
		if f := pick(closedUnderArea); f != nil {
			f.Path = []wm.PathEl{f.Path[0], f.Path[1], f.Path[0]}
			return f, f.ID.ID()
		}
	}
	return nil, b6.FeatureIDInvalid
}

func check(c Case) vlib.Outcome {
	if len(c.Set.Features) == 0 {
		return vlib.Outcome{Skip: true}
	}
	var w ingest.MutableWorld
	var ownLayer func(id b6.FeatureID) bool
	switch c.WorldKind {
	case "mutable":
		m, err := wm.BuildMutable(c.Set.Features)
		if err != nil {
			return vlib.Outcome{Skip: true, Classes: []string{"skipped:set-not-valid"}}
		}
		w = m
		ownLayer = func(id b6.FeatureID) bool { return m.HasFeatureWithID(id) }
	case "overlay":
		base, err := wm.BuildBasic(c.Set.Features, 1, true)
		if err != nil {
			return vlib.Outcome{Skip: true, Classes: []string{"skipped:set-not-valid"}}
		}
		o := ingest.NewMutableOverlayWorld(base)
		w = o
		touched := map[b6.FeatureID]bool{}
		ownLayer = func(id b6.FeatureID) bool { return touched[id] }
		defer func() { _ = touched }()
		// "touch" edits are applied below and recorded here
		for _, e := range c.Prefix {
			if e.Kind == "touch" && e.Target >= 0 {
				touched[c.Set.Features[e.Target%len(c.Set.Features)].ID.ID()] = true
			}
		}
	default:
		return vlib.Outcome{Skip: true}
	}
	for i, e := range c.Prefix {
		if e.Target < 0 {
			return vlib.Outcome{Skip: true}
		}
		f := c.Set.Features[e.Target%len(c.Set.Features)]
		var err error
		switch e.Kind {
		case "addtag":
			err = w.AddTag(f.ID.ID(), b6.Tag{Key: e.Key, Value: b6.NewStringExpression(e.Val)})
		case "removetag":
			err = w.RemoveTag(f.ID.ID(), e.Key)
		case "touch":
			err = w.AddFeature(wm.ToIngest(f))
		default:
			return vlib.Outcome{Skip: true}
		}
		if err != nil {
			return vlib.Fail("valid prefix edit %d (%s on %v) failed: %v", i, e.Kind, f.ID.ID(), err)
		}
	}
	spec, target := attempt(c)
	if spec == nil {
		return vlib.Outcome{Skip: true, Classes: []string{"skipped:no-candidate-for-" + c.Attempt}}
	}
	probes := append(c.Set.Probes(), target)
	var queries []b6.Query
	for _, k := range keys {
		if k != "name" {
			queries = append(queries, b6.Keyed{Key: k})
		}
	}
	queries = append(queries, b6.All{}, b6.Tagged{Key: "#amenity", Value: b6.NewStringExpression("cafe")}, b6.Typed{Type: b6.FeatureTypeArea, Query: b6.All{}})
	var lls []wm.LL
	for _, f := range c.Set.Features {
		if f.Point != nil {
			lls = append(lls, *f.Point)
		}
	}
	queries = append(queries, wm.SpatialQueries(lls)...)
	before := wm.Observe(w, probes, queries, wm.ObserveOptions{})
	var err error
	what := fmt.Sprintf("AddFeature(%s replacement of %v)", c.Attempt, target)
	at := 0
	if c.Merged {
		newPoint := wm.FeatureS{ID: wm.FID{T: 0, NS: string(b6.NamespaceOSMNode), V: 999001}, Point: &wm.LL{Lat: 515500000, Lng: -1400000}, Tags: []wm.TagS{{K: "#amenity", V: "cafe"}}}
		first := c.Set.Features[0].ID.ID()
		valid := []ingest.Change{
			ingest.AddTags{{ID: first, Tag: b6.Tag{Key: "#highway", Value: b6.NewStringExpression("merged")}}},
			&ingest.AddFeatures{wm.ToIngest(newPoint)},
			ingest.RemoveTags{{ID: first, Key: "name"}},
		}
		var failing ingest.Change = &ingest.AddFeatures{wm.ToIngest(*spec)}
		absent := b6.FeatureID{Type: b6.FeatureTypePoint, Namespace: b6.NamespaceOSMNode, Value: 999777}
		part := c.Attempt + " replacement of " + target.String()
		switch c.FailPart {
		case "":
		case "addtags-missing":
			// a second, present, feature follows the absent one
			failing = ingest.AddTags{{ID: absent, Tag: b6.Tag{Key: c.FailKey, Value: b6.NewStringExpression("x")}}, {ID: first, Tag: b6.Tag{Key: c.FailKey, Value: b6.NewStringExpression("y")}}}
			part = "AddTags " + c.FailKey + " on an absent feature"
		case "removetags-missing":
			failing = ingest.RemoveTags{{ID: absent, Key: c.FailKey}, {ID: first, Key: c.FailKey}}
			part = "RemoveTags " + c.FailKey + " on an absent feature"
		default:
			return vlib.Outcome{Skip: true}
		}
		probes = append(probes, absent)
		var merged ingest.MergedChange
		at = c.FailAt % (len(valid) + 1)
		merged = append(merged, valid[:at]...)
		merged = append(merged, failing)
		merged = append(merged, valid[at:]...)
		probes = append(probes, newPoint.ID.ID())
		before = wm.Observe(w, probes, queries, wm.ObserveOptions{})
		_, err = merged.Apply(w)
		what = fmt.Sprintf("MergedChange with %d parts whose part %d is %s", len(merged), at, part)
	} else {
		err = w.AddFeature(wm.ToIngest(*spec))
	}
	if err == nil {
		return vlib.Outcome{Classes: []string{"accepted:" + c.Attempt + c.FailPart}}
	}
	after := wm.Observe(w, probes, queries, wm.ObserveOptions{})
	if d := wm.Diff(before, after, "before", "after "); d != "" {
		return vlib.Fail("%s was rejected (%v) but the world changed:\n%s", what, err, d)
	}
	existed := w.HasFeatureWithID(target) && ownLayer(target)
	out := vlib.Outcome{NonTrivial: existed, Classes: []string{"rejected:" + c.Attempt, "world=" + c.WorldKind}}
	if c.Merged {
		out.Classes = append(out.Classes, "merged")
	}
	if c.Merged && c.FailPart != "" {
		out = vlib.Outcome{NonTrivial: at > 0, Classes: []string{"rejected:merged-" + c.FailPart, "world=" + c.WorldKind, "merged"}}
	}
	return out
}

func TestProp(t *testing.T) {
	vlib.Run(t, vlib.Config{ID: "C13", Name: "rejected-change", CaseTimeout: 60e9,
		Rule: "a generated valid world (points, open paths, closed paths, areas over them, relations) held in a BasicMutableWorld or a MutableOverlayWorld over a basic base; 0-6 valid prefix edits (tag edits, re-adding a feature so it is copied into the edited layer); then one attempt from the families path shortened to one point, closed path under an area opened, closed path reversed, path over a missing point, area over a missing path, closed path under an area shortened to two points - alone or as the k-th part of a MergedChange among valid tag and feature parts, where the failing part may instead be an AddTags or RemoveTags naming a feature that is not in the world; oracle: if the call returns an error a snapshot of every read query (lookup, tags, geometry, searches, references, traversal, enumeration) is unchanged; non-trivial = rejected and the target already lives in the layer being edited, or a failing tag part with applied parts before it"},
		gen, check)
}
