// Package plist builds compact posting lists for the checks that exercise
// compact.Iterator (C06, C08).
package plist

import (
	"sort"

	"diagonal.works/b6"
	"diagonal.works/b6/ingest/compact"
	"diagonal.works/b6/search"
)

// Table returns a namespace table over the given namespaces.
func Table(nss []b6.Namespace) *compact.NamespaceTable {
	nt := &compact.NamespaceTable{}
	nt.FillFromNamespaces(nss)
	return nt
}

// SortIDs sorts ids in b6.FeatureID order and removes duplicates.
func SortIDs(ids []b6.FeatureID) []b6.FeatureID {
	out := append([]b6.FeatureID{}, ids...)
	sort.Slice(out, func(i, j int) bool { return out[i].Less(out[j]) })
	w := 0
	for r := range out {
		if r == 0 || out[r] != out[w-1] {
			out[w] = out[r]
			w++
		}
	}
	return out[:w]
}

// Encode builds the marshalled posting list for token holding ids, the way
// the index builder does: IDs are appended to a compact.FeatureIDs, sorted
// with its own ordering and written with PostingList.Fill/Marshal.
func Encode(token string, ids []b6.FeatureID, nt *compact.NamespaceTable) []byte {
	var fids compact.FeatureIDs
	for _, id := range ids {
		fids.Append(compact.EncodeFeatureID(id, nt))
	}
	sort.Sort(&fids)
	var pl compact.PostingList
	pl.Fill(token, fids.Begin())
	buffer := make([]byte, compact.PostingListHeaderMaxLength+len(pl.IDs)+len(token)+64)
	n := pl.Marshal(buffer)
	return buffer[:n]
}

// FeatureIDValues orders b6.FeatureID values.
type FeatureIDValues struct{}

func cmp(a, b b6.FeatureID) search.Comparison {
	if a.Less(b) {
		return search.ComparisonLess
	} else if a == b {
		return search.ComparisonEqual
	}
	return search.ComparisonGreater
}

func (FeatureIDValues) Compare(a search.Value, b search.Value) search.Comparison {
	return cmp(a.(b6.FeatureID), b.(b6.FeatureID))
}

func (FeatureIDValues) CompareKey(v search.Value, k search.Key) search.Comparison {
	return cmp(v.(b6.FeatureID), k.(b6.FeatureID))
}

func (FeatureIDValues) Key(v search.Value) search.Key { return v.(b6.FeatureID) }

// Index is a search.Index whose posting lists are compact encoded.
type Index struct {
	nt     *compact.NamespaceTable
	lists  map[string][]byte
	tokens []string
}

func NewIndex(lists map[string][]b6.FeatureID, nt *compact.NamespaceTable) *Index {
	ix := &Index{nt: nt, lists: map[string][]byte{}}
	for token, ids := range lists {
		ix.lists[token] = Encode(token, ids, nt)
		ix.tokens = append(ix.tokens, token)
	}
	sort.Strings(ix.tokens)
	return ix
}

func (ix *Index) Begin(token string) search.Iterator {
	if b, ok := ix.lists[token]; ok {
		return compact.NewIterator(b, ix.nt)
	}
	return search.NewEmptyIterator()
}

func (ix *Index) Tokens() search.TokenIterator {
	indices := map[string]int{}
	for i, t := range ix.tokens {
		indices[t] = i
	}
	return search.NewFilledTokens(ix.tokens, indices).Tokens()
}

func (ix *Index) Values() search.Values { return FeatureIDValues{} }

func (ix *Index) NumTokens() int { return len(ix.tokens) }
