// C26: callers are told whether their change was applied.
package c26

import (
	"context"
	"fmt"
	"sort"
	"strings"
	"sync"
	"testing"

	"diagonal.works/b6"
	"diagonal.works/b6/api"
	"diagonal.works/b6/api/functions"
	b6grpc "diagonal.works/b6/grpc"
	"diagonal.works/b6/ingest"
	pb "diagonal.works/b6/proto"
	"google.golang.org/protobuf/proto"
	"pgregory.net/rapid"
	"verif/vlib"
	"verif/wm"
)

// Step is one edit: a tag added to or removed from a feature, or a point added.
type Step struct {
	Op    string `json:"op"` // add-tag remove-tag add-point
	ID    wm.FID `json:"id"`
	Key   string `json:"key,omitempty"`
	Value string `json:"value,omitempty"`
}

// Change is what the client's expression evaluates to.
type Change struct {
	Kind  string   `json:"kind"` // single add-tags remove-tags merged
	Steps []Step   `json:"steps,omitempty"`
	Subs  []Change `json:"subs,omitempty"`
}

type Case struct {
	Change Change `json:"change"`
}

const nsNode, nsWay = string(b6.NamespaceOSMNode), string(b6.NamespaceOSMWay)

func node(v uint64) wm.FID { return wm.FID{T: 0, NS: nsNode, V: v} }

var worldFeatures = func() []wm.FeatureS {
	var fs []wm.FeatureS
	for i := uint64(1); i <= 4; i++ {
		ll := wm.LL{Lat: 515350000 + int32(i)*1000, Lng: -1250000 + int32(i)*1500}
		f := wm.FeatureS{ID: node(i), Point: &ll}
		if i%2 == 1 {
			f.Tags = []wm.TagS{{K: "#amenity", V: "cafe"}, {K: "name", V: fmt.Sprintf("n%d", i)}}
		}
		fs = append(fs, f)
	}
	a, b, c := node(1), node(2), node(3)
	fs = append(fs, wm.FeatureS{ID: wm.FID{T: 1, NS: nsWay, V: 10}, Tags: []wm.TagS{{K: "#highway", V: "path"}}, Path: []wm.PathEl{{Ref: &a}, {Ref: &b}, {Ref: &c}}})
	return fs
}()

var present = []wm.FID{node(1), node(2), node(3), node(4), {T: 1, NS: nsWay, V: 10}}
var absent = []wm.FID{node(90), node(91), {T: 1, NS: nsWay, V: 99}, {T: 2, NS: nsWay, V: 10}}
var fresh = []wm.FID{node(50), node(51), node(52)}

func genStep(t *rapid.T) Step {
	ids := present
	switch rapid.IntRange(0, 23).Draw(t, "target") {
	case 0:
		ids = absent
	case 1, 2:
		ids = fresh // exists only if an earlier step added it
	}
	s := Step{Op: rapid.SampledFrom([]string{"add-tag", "add-tag", "add-tag", "remove-tag", "add-point"}).Draw(t, "op"), ID: rapid.SampledFrom(ids).Draw(t, "id")}
	switch s.Op {
	case "add-point":
		s.ID = rapid.SampledFrom(fresh).Draw(t, "newid")
	default:
		s.Key = rapid.SampledFrom([]string{"#amenity", "name", "colour", "#shop", "@wikidata"}).Draw(t, "key")
		s.Value = rapid.SampledFrom([]string{"cafe", "red", "yes", ""}).Draw(t, "value")
	}
	return s
}

func genChange(t *rapid.T, depth int) Change {
	kinds := []string{"single", "single", "add-tags", "add-tags", "remove-tags"}
	if depth > 0 {
		kinds = append(kinds, "merged", "merged", "merged")
	}
	c := Change{Kind: rapid.SampledFrom(kinds).Draw(t, "kind")}
	switch c.Kind {
	case "single":
		c.Steps = []Step{genStep(t)}
	case "add-tags", "remove-tags":
		for i, n := 0, rapid.IntRange(1, 4).Draw(t, "nsteps"); i < n; i++ {
			s := genStep(t)
			s.Op = strings.TrimSuffix(c.Kind, "s")
			if s.Key == "" {
				s.Key = "name"
			}
			c.Steps = append(c.Steps, s)
		}
	case "merged":
		for i, n := 0, rapid.IntRange(1, 4).Draw(t, "nsubs"); i < n; i++ {
			c.Subs = append(c.Subs, genChange(t, depth-1))
		}
	}
	return c
}

func gen(t *rapid.T) Case { return Case{Change: genChange(t, 2)} }

// ---------------------------------------------------------------------------

func sym(s string) b6.Expression { return b6.NewSymbolExpression(s) }
func call(f string, args ...b6.Expression) b6.Expression {
	return b6.NewCallExpression(sym(f), args)
}
func idOf(id wm.FID) b6.Expression { return b6.NewFeatureIDExpression(id.ID()) }
func tagOf(s Step) b6.Expression {
	return b6.Expression{AnyExpression: b6.TagExpression{Key: s.Key, Value: b6.NewStringExpression(s.Value)}}
}

func (s Step) expression() (b6.Expression, bool) {
	switch s.Op {
	case "add-tag":
		return call("add-tag", idOf(s.ID), tagOf(s)), true
	case "remove-tag":
		return call("remove-tag", idOf(s.ID), b6.NewStringExpression(s.Key)), true
	case "add-point":
		return call("add-point", call("ll", b6.NewFloatExpression(51.536), b6.NewFloatExpression(-0.125)), idOf(s.ID), call("collection", call("pair", b6.NewIntExpression(0), tagOf(Step{Key: "#amenity", Value: "added"})))), s.ID.T == 0
	}
	return b6.Expression{}, false
}

func (c Change) expression() (b6.Expression, bool) {
	switch c.Kind {
	case "single":
		if len(c.Steps) != 1 {
			return b6.Expression{}, false
		}
		return c.Steps[0].expression()
	case "add-tags", "remove-tags":
		var pairs []b6.Expression
		for _, s := range c.Steps {
			if s.Op != strings.TrimSuffix(c.Kind, "s") {
				return b6.Expression{}, false
			}
			v := tagOf(s)
			if c.Kind == "remove-tags" {
				v = b6.NewStringExpression(s.Key)
			}
			pairs = append(pairs, call("pair", idOf(s.ID), v))
		}
		return call(c.Kind, call("collection", pairs...)), len(pairs) > 0
	case "merged":
		var pairs []b6.Expression
		for i, sub := range c.Subs {
			e, ok := sub.expression()
			if !ok {
				return b6.Expression{}, false
			}
			pairs = append(pairs, call("pair", b6.NewIntExpression(i), e))
		}
		return call("merge-changes", call("collection", pairs...)), len(pairs) > 0
	}
	return b6.Expression{}, false
}

// model is the harness's own account of the world: which features exist and their tags.
type model map[b6.FeatureID]map[string]string

func (m model) clone() model {
	out := model{}
	for id, tags := range m {
		t := map[string]string{}
		for k, v := range tags {
			t[k] = v
		}
		out[id] = t
	}
	return out
}

func newModel() model {
	m := model{}
	for _, f := range worldFeatures {
		tags := map[string]string{}
		for _, t := range f.Tags {
			tags[t.K] = t.V
		}
		m[f.ID.ID()] = tags
	}
	return m
}

// apply gives the change's effect on the model: the features it modifies, or
// failure, which for a merged change leaves the model as it was. partial is set
// when a change that isn't merged fails after some of its edits.
func (c Change) apply(m model) (modified []b6.FeatureID, ok bool, partial bool) {
	step := func(s Step) bool {
		id := s.ID.ID()
		switch s.Op {
		case "add-point":
			m[id] = map[string]string{"#amenity": "added"}
		case "add-tag":
			if _, exists := m[id]; !exists {
				return false
			}
			m[id][s.Key] = s.Value
		case "remove-tag":
			if _, exists := m[id]; !exists {
				return false
			}
			delete(m[id], s.Key)
		}
		modified = append(modified, id)
		return true
	}
	switch c.Kind {
	case "merged":
		trial := m.clone()
		var all []b6.FeatureID
		for _, sub := range c.Subs {
			ids, ok, _ := sub.apply(trial)
			if !ok {
				return nil, false, false
			}
			all = append(all, ids...)
		}
		for id := range m {
			delete(m, id)
		}
		for id, tags := range trial {
			m[id] = tags
		}
		return all, true, false
	default:
		for i, s := range c.Steps {
			if !step(s) {
				return nil, false, i > 0
			}
		}
	}
	return modified, true, false
}

func idSet(ids []b6.FeatureID) string {
	seen := map[string]bool{}
	for _, id := range ids {
		seen[id.String()] = true
	}
	var out []string
	for s := range seen {
		out = append(out, s)
	}
	sort.Strings(out)
	return strings.Join(out, " ")
}

func idsOfCollection(c b6.UntypedCollection) ([]b6.FeatureID, error) {
	var out []b6.FeatureID
	i := c.BeginUntyped()
	for {
		ok, err := i.Next()
		if err != nil || !ok {
			return out, err
		}
		id, ok := i.Value().(b6.FeatureID)
		if !ok {
			return nil, fmt.Errorf("value %v isn't a feature id", i.Value())
		}
		out = append(out, id)
	}
}

// compareWorld checks that the world holds exactly the model's features and tags.
func compareWorld(w b6.World, m model) error {
	for id, tags := range m {
		f := w.FindFeatureByID(id)
		if f == nil {
			return fmt.Errorf("%s isn't in the world", id)
		}
		for k, v := range tags {
			if t := f.Get(k); !t.IsValid() || t.Value.String() != v {
				return fmt.Errorf("%s has %s=%q in the world, expected %q", id, k, t.Value.String(), v)
			}
		}
		for _, t := range f.AllTags() {
			if _, ok := tags[t.Key]; !ok && t.Key != b6.PointTag && t.Key != b6.PathTag {
				return fmt.Errorf("%s has the tag %s in the world, which it shouldn't", id, t.Key)
			}
		}
	}
	for _, id := range append(append([]wm.FID{}, absent...), fresh...) {
		if _, ok := m[id.ID()]; !ok && w.FindFeatureByID(id.ID()) != nil {
			return fmt.Errorf("%s is in the world, which it shouldn't be", id.ID())
		}
	}
	return nil
}

func check(c Case) vlib.Outcome {
	e, ok := c.Change.expression()
	if !ok {
		return vlib.Outcome{Skip: true}
	}
	what, _ := api.UnparseExpression(e)
	base, err := wm.BuildBasic(worldFeatures, 1, true)
	if err != nil {
		return vlib.Fail("building the world failed: %v", err)
	}
	expected := newModel()
	before := expected.clone()
	wantIDs, wantOK, partial := c.Change.apply(expected)
	if !wantOK && !partial {
		expected = before
	}
	verdict := func(route string, gotErr error, gotIDs []b6.FeatureID, w b6.World) error {
		if wantOK && gotErr != nil {
			return fmt.Errorf("%s reports the error %q for %s, although every edit can be applied", route, gotErr, what)
		}
		if !wantOK && gotErr == nil {
			return fmt.Errorf("%s reports success (modified: %s) for %s, although an edit targets a feature that doesn't exist", route, idSet(gotIDs), what)
		}
		if wantOK && idSet(gotIDs) != idSet(wantIDs) {
			return fmt.Errorf("%s returns the ids %s for %s; the change modifies %s", route, idSet(gotIDs), what, idSet(wantIDs))
		}
		if wantOK || !partial {
			if err := compareWorld(w, expected); err != nil {
				return fmt.Errorf("after %s (via %s, success %v): %v", what, route, wantOK, err)
			}
		}
		return nil
	}

	// 1. the gRPC service
	p, err := e.ToProto()
	if err != nil {
		return vlib.Fail("no proto for %s: %v", what, err)
	}
	wire, err := proto.Marshal(&pb.EvaluateRequestProto{Request: p, Version: b6.ApiVersion})
	if err != nil {
		return vlib.Fail("marshal: %v", err)
	}
	var request pb.EvaluateRequestProto
	if err := proto.Unmarshal(wire, &request); err != nil {
		return vlib.Fail("unmarshal: %v", err)
	}
	worlds := &ingest.MutableWorlds{Base: base}
	var lock sync.RWMutex
	response, serveErr := b6grpc.NewB6Service(worlds, api.Options{Cores: 1}, &lock).Evaluate(context.Background(), &request)
	var served []b6.FeatureID
	if serveErr == nil {
		result, err := b6.ExpressionFromProto(response.GetResult())
		if err != nil {
			return vlib.Fail("the response to %s doesn't convert: %v", what, err)
		}
		collection, ok := result.AnyExpression.(b6.CollectionExpression)
		if !ok {
			return vlib.Fail("the response to %s is a %T, not a collection of ids", what, result.AnyExpression)
		}
		if served, err = idsOfCollection(collection); err != nil {
			return vlib.Fail("the response to %s: %v", what, err)
		}
	}
	if err := verdict("the gRPC service", serveErr, served, worlds.FindOrCreateWorld(ingest.DefaultWorldFeatureID)); err != nil {
		return vlib.Outcome{Err: err}
	}

	// 2. the evaluator the UI uses; its caller holds the read lock
	worlds2 := &ingest.MutableWorlds{Base: base}
	var lock2 sync.RWMutex
	evaluator := api.Evaluator{Worlds: worlds2, FunctionSymbols: functions.Functions(), Adaptors: functions.Adaptors(), Options: api.Options{Cores: 1}, Lock: &lock2}
	lock2.RLock()
	result, evalErr := evaluator.EvaluateExpression(e, b6.FeatureIDInvalid)
	lock2.RUnlock()
	var evaluated []b6.FeatureID
	if evalErr == nil {
		applied, ok := result.(*api.AppliedChange)
		if !ok {
			return vlib.Fail("the evaluator returns a %T for %s, not an applied change", result, what)
		}
		if evaluated, err = idsOfCollection(applied.Modified); err != nil {
			return vlib.Fail("the evaluator's modified ids for %s: %v", what, err)
		}
	}
	if err := verdict("the UI evaluator", evalErr, evaluated, worlds2.FindOrCreateWorld(ingest.DefaultWorldFeatureID)); err != nil {
		return vlib.Outcome{Err: err}
	}
	steps, merged := 0, false
	var count func(c Change)
	count = func(c Change) {
		steps += len(c.Steps)
		merged = merged || c.Kind == "merged"
		for _, s := range c.Subs {
			count(s)
		}
	}
	count(c.Change)
	out := vlib.Outcome{NonTrivial: steps >= 2, Classes: []string{"kind=" + c.Change.Kind}}
	if !wantOK {
		out.Classes = append(out.Classes, "fails")
		if partial {
			out.Classes = append(out.Classes, "fails-after-some-edits")
		}
	}
	if merged {
		out.Classes = append(out.Classes, "merged")
	}
	return out
}

func TestProp(t *testing.T) {
	vlib.Run(t, vlib.Config{ID: "C26", Name: "change-reporting", CaseTimeout: 30e9,
		Rule: "changes built from add-tag, remove-tag, add-point, multi-entry add-tags/remove-tags and merge-changes nested to depth 2, over features that exist, never exist, or exist only once an earlier edit of the same change added them, with indexed (#, @) and plain tag keys; each evaluated through the gRPC service (marshalled request) and through api.Evaluator under its read lock, on fresh worlds; oracle: the harness's own model of which features exist: an error is reported exactly when an edit targets a missing feature, on success the returned ids are the features the model says were modified and the world holds exactly the model's features and tags, and a failed merged change leaves the world untouched; non-trivial = at least two edits"},
		gen, check)
}
