// C31: feature IDs survive every textual and wire encoding; ID order is a
// strict total order consistent with the compact index's order.
package c31

import (
	"encoding/json"
	"fmt"
	"strings"
	"testing"

	"diagonal.works/b6"
	"diagonal.works/b6/api"
	"diagonal.works/b6/ingest/compact"
	pb "diagonal.works/b6/proto"
	"google.golang.org/protobuf/proto"
	yaml "gopkg.in/yaml.v2"
	"pgregory.net/rapid"
	"verif/gen"
	"verif/vlib"
)

type ID struct {
	T  int    `json:"t"`
	NS string `json:"ns"`
	V  uint64 `json:"v,string"`
}

var types = []b6.FeatureType{b6.FeatureTypePoint, b6.FeatureTypePath, b6.FeatureTypeArea, b6.FeatureTypeRelation, b6.FeatureTypeCollection, b6.FeatureTypeExpression}

func (i ID) fid() b6.FeatureID {
	return b6.FeatureID{Type: types[((i.T%len(types))+len(types))%len(types)], Namespace: b6.Namespace(i.NS), Value: i.V}
}

type Case struct {
	A ID `json:"a"`
	B ID `json:"b"`
	C ID `json:"c"`
}

var nsPool = []string{
	string(b6.NamespaceOSMNode), string(b6.NamespaceOSMWay), string(b6.NamespaceOSMRelation), string(b6.NamespaceLatLng),
	string(b6.NamespaceGBUPRN), string(b6.NamespaceGBCodePoint), string(b6.NamespaceUKONSBoundaries), string(b6.NamespaceDiagonalAccessPaths),
	"a", "a/b", "a/b/c/d", "x.y/z-w_1", "www.ordnancesurvey.co.uk/os-open-map-local/buildings",
}

const alnum = "ABCDEFGHIJKLMNOPQRSTUVWXYZ0123456789"

func genID(t *rapid.T, label string) ID {
	id := ID{T: rapid.IntRange(0, len(types)-1).Draw(t, label+"type")}
	switch rapid.IntRange(0, 9).Draw(t, label+"nsclass") {
	case 0, 1, 2, 3, 4:
		id.NS = rapid.SampledFrom(nsPool).Draw(t, label+"ns")
	case 5, 6:
		id.NS = rapid.StringMatching(`[a-z][a-z0-9./_-]{0,11}`).Draw(t, label+"ns")
	case 7:
		id.NS = rapid.StringMatching(`[a-zA-Z0-9./_:é日 -]{1,12}`).Draw(t, label+"ns")
	default: // alias namespaces with the alias's type
		switch rapid.IntRange(0, 6).Draw(t, label+"alias") {
		case 0:
			id.T, id.NS = 0, string(b6.NamespaceOSMNode)
		case 1:
			id.T, id.NS = 1, string(b6.NamespaceOSMWay)
		case 2:
			id.T, id.NS = 2, string(b6.NamespaceOSMWay)
		case 3:
			id.T, id.NS = 3, string(b6.NamespaceOSMRelation)
		case 4:
			id.T, id.NS = 0, string(b6.NamespaceGBUPRN)
		case 5:
			// packed here, not by the function under test: 6 bits per symbol (0-9, then A-Z), then 2 bits of length-5
			n := rapid.IntRange(5, 7).Draw(t, label+"pclen")
			v := uint64(0)
			for i := 0; i < n; i++ {
				v = v<<6 | uint64(rapid.IntRange(0, 35).Draw(t, label+"pc"))
			}
			return fromFID(b6.FeatureID{Type: b6.FeatureTypePoint, Namespace: b6.NamespaceGBCodePoint, Value: v<<2 | uint64(n-5)})
		case 6:
			// packed here, not by the function under test: letter<<40 | (year-1900)<<32 | number
			letter, number := uint64('A'+rapid.IntRange(0, 25).Draw(t, label+"letter")), uint64(rapid.IntRange(0, 99999999).Draw(t, label+"number"))
			year := uint64(rapid.SampledFrom([]int{1900, 1901, 2011, 2021, 2027, 2028, 2029, 2100, 2154, 2155, rapid.IntRange(1900, 2155).Draw(t, label+"anyyear")}).Draw(t, label+"year") - 1900)
			return fromFID(b6.FeatureID{Type: b6.FeatureTypeArea, Namespace: b6.NamespaceUKONSBoundaries, Value: letter<<40 | year<<32 | number})
		}
	}
	id.V = gen.U64().Draw(t, label+"value")
	return id
}

func fromFID(f b6.FeatureID) ID {
	for i, ty := range types {
		if ty == f.Type {
			return ID{i, string(f.Namespace), f.Value}
		}
	}
	return ID{0, string(f.Namespace), f.Value}
}

func gen_(t *rapid.T) Case {
	c := Case{A: genID(t, "a")}
	// b and c are often near a, so that ordering ties are broken by each field
	near := func(label string) ID {
		switch rapid.IntRange(0, 4).Draw(t, label+"near") {
		case 0:
			return ID{c.A.T, c.A.NS, gen.U64().Draw(t, label+"v")}
		case 1:
			return ID{c.A.T, rapid.SampledFrom(nsPool).Draw(t, label+"ns"), c.A.V}
		case 2:
			return ID{rapid.IntRange(0, len(types)-1).Draw(t, label+"t"), c.A.NS, c.A.V}
		default:
			return genID(t, label)
		}
	}
	c.B, c.C = near("b"), near("c")
	return c
}

func lexable(ns string) bool {
	for _, r := range ns {
		if !(r >= 'a' && r <= 'z' || r >= 'A' && r <= 'Z' || r >= '0' && r <= '9' || r == '.' || r == '-' || r == '/' || r == '_') {
			return false
		}
	}
	return true
}

type wrapper struct {
	ID  b6.FeatureID            `json:"id" yaml:"id"`
	IDs []b6.FeatureID          `json:"ids" yaml:"ids"`
	M   map[string]b6.FeatureID `json:"m" yaml:"m"`
}

func roundTrips(id b6.FeatureID) error {
	// String
	if back := b6.FeatureIDFromString(id.String()); back != id {
		return fmt.Errorf("FeatureIDFromString(%q) = %v", id.String(), back)
	}
	if back := b6.FeatureIDFromString("/" + id.String()); back != id {
		return fmt.Errorf("FeatureIDFromString(%q) = %v", "/"+id.String(), back)
	}
	// JSON
	b, err := json.Marshal(id)
	if err != nil {
		return fmt.Errorf("json.Marshal(%v): %v", id, err)
	}
	var j b6.FeatureID
	if err := json.Unmarshal(b, &j); err != nil || j != id {
		return fmt.Errorf("JSON %s -> %v (err %v), want %v", b, j, err, id)
	}
	w := wrapper{ID: id, IDs: []b6.FeatureID{id, id}, M: map[string]b6.FeatureID{"k": id}}
	if b, err = json.Marshal(w); err != nil {
		return fmt.Errorf("json.Marshal(struct with %v): %v", id, err)
	}
	var wj wrapper
	if err := json.Unmarshal(b, &wj); err != nil || wj.ID != id || len(wj.IDs) != 2 || wj.IDs[1] != id || wj.M["k"] != id {
		return fmt.Errorf("JSON %s -> %+v (err %v), want %v everywhere", b, wj, err, id)
	}
	// YAML
	if b, err = yaml.Marshal(id); err != nil {
		return fmt.Errorf("yaml.Marshal(%v): %v", id, err)
	}
	var y b6.FeatureID
	if err := yaml.Unmarshal(b, &y); err != nil || y != id {
		return fmt.Errorf("YAML %q -> %v (err %v), want %v", b, y, err, id)
	}
	if b, err = yaml.Marshal(w); err != nil {
		return fmt.Errorf("yaml.Marshal(struct with %v): %v", id, err)
	}
	var wy wrapper
	if err := yaml.Unmarshal(b, &wy); err != nil || wy.ID != id || len(wy.IDs) != 2 || wy.IDs[1] != id || wy.M["k"] != id {
		return fmt.Errorf("YAML %q -> %+v (err %v), want %v everywhere", b, wy, err, id)
	}
	// protobuf, in memory and on the wire
	p := b6.NewProtoFromFeatureID(id)
	if back := b6.NewFeatureIDFromProto(p); back != id {
		return fmt.Errorf("NewFeatureIDFromProto(NewProtoFromFeatureID(%v)) = %v", id, back)
	}
	wire, err := proto.Marshal(p)
	if err != nil {
		return fmt.Errorf("proto.Marshal(%v): %v", id, err)
	}
	var p2 pb.FeatureIDProto
	if err := proto.Unmarshal(wire, &p2); err != nil || b6.NewFeatureIDFromProto(&p2) != id {
		return fmt.Errorf("protobuf wire round trip of %v gives %v (err %v)", id, b6.NewFeatureIDFromProto(&p2), err)
	}
	// shell tokens, full and abbreviated
	for _, abbreviate := range []bool{false, true} {
		token := api.UnparseFeatureID(id, abbreviate)
		back, err := api.ParseFeatureIDToken(token)
		if err != nil || back != id {
			return fmt.Errorf("ParseFeatureIDToken(UnparseFeatureID(%v, abbreviate=%v) = %q) = %v (err %v)", id, abbreviate, token, back, err)
		}
		if lexable(string(id.Namespace)) {
			e, err := api.ParseExpression(token)
			if err != nil {
				return fmt.Errorf("ParseExpression(%q): %v", token, err)
			}
			fe, ok := e.AnyExpression.(b6.FeatureIDExpression)
			if !ok || b6.FeatureID(fe) != id {
				return fmt.Errorf("ParseExpression(%q) = %v, want feature ID %v", token, e.AnyExpression, id)
			}
			if e.Begin != 0 || e.End != len(token) {
				return fmt.Errorf("ParseExpression(%q) spans [%d,%d), want [0,%d)", token, e.Begin, e.End, len(token))
			}
			// and through the expression printer
			if s, ok := api.UnparseExpression(e); ok {
				e2, err := api.ParseExpression(s)
				if err != nil {
					return fmt.Errorf("ParseExpression(UnparseExpression(%v) = %q): %v", id, s, err)
				}
				if fe2, ok := e2.AnyExpression.(b6.FeatureIDExpression); !ok || b6.FeatureID(fe2) != id {
					return fmt.Errorf("UnparseExpression(%v) = %q parses to %v", id, s, e2.AnyExpression)
				}
			}
		}
	}
	return nil
}

// refPostcode decodes a GB postcode ID: 2 low bits hold length-5, then 6 bits
// per symbol (0-9, A-Z = 10-35), most significant symbol first.
func refPostcode(v uint64) (string, bool) {
	n := 5 + int(v&3)
	if n > 7 {
		return "", false
	}
	v >>= 2
	b := make([]byte, n)
	for i := n - 1; i >= 0; i-- {
		sym := v & 63
		if sym >= 36 {
			return "", false
		}
		b[i] = alnum[(sym+26)%36] // alnum is A-Z then 0-9
		v >>= 6
	}
	return string(b), v == 0
}

// refONS decodes an ONS boundary ID: letter<<40 | (year-1900)<<32 | number.
func refONS(v uint64) (string, int, bool) {
	letter, year, number := byte(v>>40), int((v>>32)&0xff)+1900, v&0xffffffff
	if v>>48 != 0 || letter < 'A' || letter > 'Z' || number > 99999999 {
		return "", 0, false
	}
	return fmt.Sprintf("%c%08d", letter, number), year, true
}

func aliasUsed(id b6.FeatureID) bool {
	return !strings.HasPrefix(api.UnparseFeatureID(id, true), "/"+id.Type.String()+"/")
}

func check(c Case) vlib.Outcome {
	ids := []b6.FeatureID{c.A.fid(), c.B.fid(), c.C.fid()}
	out := vlib.Outcome{}
	for _, id := range ids {
		if !id.IsValid() {
			return vlib.Outcome{Skip: true}
		}
	}
	// Validity of IDs in the postcode and ONS namespaces, decided by decoders
	// written here (independent of the code under test); they also give the
	// expected alias text.
	for _, id := range ids {
		if id.Namespace == b6.NamespaceGBCodePoint && id.Type == b6.FeatureTypePoint {
			pc, ok := refPostcode(id.Value)
			if !ok {
				return vlib.Outcome{Skip: true, Classes: []string{"skipped:not-a-postcode-id"}}
			}
			if want, got := "/gb/codepoint/"+strings.ToLower(pc), api.UnparseFeatureID(id, true); got != want {
				return vlib.Fail("UnparseFeatureID(%v) = %q, the ID packs postcode %q so expected %q", id, got, pc, want)
			}
			if back := b6.PointIDFromGBPostcode(pc); back != id {
				return vlib.Fail("PointIDFromGBPostcode(%q) = %v, want %v", pc, back, id)
			}
		}
		if id.Namespace == b6.NamespaceUKONSBoundaries && id.Type == b6.FeatureTypeArea {
			code, year, ok := refONS(id.Value)
			if !ok {
				return vlib.Outcome{Skip: true, Classes: []string{"skipped:not-an-ons-id"}}
			}
			if want, got := fmt.Sprintf("/uk/ons/%d/%s", year, code), api.UnparseFeatureID(id, true); got != want {
				return vlib.Fail("UnparseFeatureID(%v) = %q, the ID packs ONS code %q year %d so expected %q", id, got, code, year, want)
			}
			if back := b6.FeatureIDFromUKONSCode(code, year, b6.FeatureTypeArea); back != id {
				return vlib.Fail("FeatureIDFromUKONSCode(%q, %d) = %v, want %v", code, year, back, id)
			}
			if c, y, ok := b6.UKONSCodeFromFeatureID(id); !ok || c != code || y != year {
				return vlib.Fail("UKONSCodeFromFeatureID(%v) = %q, %d, %v; want %q, %d", id, c, y, ok, code, year)
			}
		}
	}
	for _, id := range ids {
		if err := roundTrips(id); err != nil {
			return vlib.Outcome{Err: err}
		}
		if aliasUsed(id) {
			out.Classes = append(out.Classes, "alias")
			out.NonTrivial = true
		}
		if strings.Contains(string(id.Namespace), "/") && id.Value >= 1<<63 {
			out.NonTrivial = true
		}
	}
	// strict total order
	a, b, cc := ids[0], ids[1], ids[2]
	for _, x := range ids {
		if x.Less(x) {
			return vlib.Fail("Less is not irreflexive: %v < itself", x)
		}
		for _, y := range ids {
			if x != y && x.Less(y) == y.Less(x) {
				return vlib.Fail("Less is not asymmetric/total on %v, %v: %v and %v", x, y, x.Less(y), y.Less(x))
			}
		}
	}
	perms := [][3]b6.FeatureID{{a, b, cc}, {a, cc, b}, {b, a, cc}, {b, cc, a}, {cc, a, b}, {cc, b, a}}
	for _, p := range perms {
		if p[0].Less(p[1]) && p[1].Less(p[2]) && !p[0].Less(p[2]) {
			return vlib.Fail("Less is not transitive on %v < %v < %v", p[0], p[1], p[2])
		}
	}
	// consistency with the compact index order for the types the index holds
	var nt compact.NamespaceTable
	nt.FillFromNamespaces([]b6.Namespace{a.Namespace, b.Namespace, cc.Namespace})
	var fids compact.FeatureIDs
	var indexable []b6.FeatureID
	for _, id := range ids {
		if id.Type <= b6.FeatureTypeRelation {
			fids.Append(compact.EncodeFeatureID(id, &nt))
			indexable = append(indexable, id)
		}
	}
	for i := range indexable {
		for j := range indexable {
			if fids.Less(i, j) != indexable[i].Less(indexable[j]) {
				return vlib.Fail("compact order disagrees with FeatureID.Less on %v, %v: compact %v, Less %v", indexable[i], indexable[j], fids.Less(i, j), indexable[i].Less(indexable[j]))
			}
			if back := nt.DecodeID(fids.At(i)); back != indexable[i] {
				return vlib.Fail("compact encode/decode of %v gives %v", indexable[i], back)
			}
		}
	}
	return out
}

func TestProp(t *testing.T) {
	vlib.Run(t, vlib.Config{ID: "C31", Name: "feature-ids",
		Rule: "triples of valid feature IDs over all six types, namespaces from a pool (standard ones, ones containing '/'), generated namespaces (incl. ':', spaces and non-ASCII letters) and alias namespaces with valid postcode/ONS values, and boundary-biased 64-bit values; each ID round-trips through String, JSON (bare, in structs, slices and maps), YAML, protobuf (in memory and wire bytes), shell tokens (full and abbreviated), the shell parser and printer (namespaces in the lexer's character set); the triple is checked for irreflexivity, asymmetry/totality, transitivity and agreement with the compact (type+namespace, value) order; non-trivial = an alias form is used, or a namespace with '/' and a value >= 2^63"},
		gen_, check)
}
