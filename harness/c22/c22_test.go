// C22: simplification never changes a program's result.
package c22

import (
	"fmt"
	"reflect"
	"sort"
	"strings"
	"testing"

	"diagonal.works/b6"
	"diagonal.works/b6/api"
	"diagonal.works/b6/api/functions"
	"diagonal.works/b6/ingest"
	"pgregory.net/rapid"
	"verif/lang"
	"verif/vlib"
)

type Case struct {
	E lang.E `json:"e"`
}

func gen(t *rapid.T) Case {
	return Case{E: lang.Gen{Eta: true}.Program(t, rapid.IntRange(1, 4).Draw(t, "depth"))}
}

func evaluate(e b6.Expression, ctx *api.Context) (result interface{}, err error, panicked interface{}) {
	defer func() {
		if p := recover(); p != nil {
			panicked = p
		}
	}()
	result, err = api.Evaluate(e, ctx)
	return
}

func simplify(e b6.Expression, fs api.FunctionSymbols) (s b6.Expression, panicked interface{}) {
	defer func() {
		if p := recover(); p != nil {
			panicked = p
		}
	}()
	return api.Simplify(e, fs), nil
}

func show(v interface{}, err error) string {
	if err != nil {
		return "error: " + err.Error()
	}
	switch v := v.(type) {
	case int, lang.P:
		return fmt.Sprintf("%v", v)
	case b6.Query:
		return v.String()
	}
	return fmt.Sprintf("a %T", v)
}

func unparse(e b6.Expression) string {
	if s, ok := api.UnparseExpression(e); ok {
		return s
	}
	return e.String()
}

func check(c Case) vlib.Outcome {
	ok, size := c.E.Valid()
	if !ok || size > 120 || lang.Static(&c.E, nil) != nil {
		return vlib.Outcome{Skip: true}
	}
	in := &lang.Interp{}
	want, werr := in.Eval(&c.E, nil)
	if werr == lang.ErrTooLong {
		return vlib.Outcome{Skip: true}
	}
	// Simplify writes into the expression it is given, so each use gets its own copy
	original := c.E.Build()
	simplified, panicked := simplify(c.E.Build(), lang.Library)
	if panicked != nil {
		return vlib.Fail("Simplify panics on %s: %v", c.E, panicked)
	}
	changed := unparse(simplified) != unparse(original)
	if evaded := "c22-lambda-prefix"; changed && vlib.Known(evaded) {
		return vlib.Excluded(evaded)
	}
	freeBefore, freeAfter := map[string]bool{}, map[string]bool{}
	lang.Free(original, nil, freeBefore)
	lang.Free(simplified, nil, freeAfter)
	var unbound []string
	for s := range freeAfter {
		if !freeBefore[s] {
			unbound = append(unbound, s)
		}
	}
	sort.Strings(unbound)
	if len(unbound) > 0 {
		return vlib.Fail("Simplify turns %s into %s, in which %v are no longer bound by a lambda", c.E, unparse(simplified), unbound)
	}
	got, gerr, p1 := evaluate(original, lang.NewContext())
	sgot, serr, p2 := evaluate(simplified, lang.NewContext())
	if p1 != nil || p2 != nil {
		return vlib.Fail("evaluating %s panics: %v; simplified to %s: %v", c.E, p1, unparse(simplified), p2)
	}
	if (gerr == nil) != (serr == nil) || (gerr == nil && !sameValue(got, sgot)) {
		return vlib.Fail("%s evaluates to %s, but its simplified form %s to %s (the language gives %s)", c.E, show(got, gerr), unparse(simplified), show(sgot, serr), show(want, werr))
	}
	// and both agree with the language (C21's subject, here for the simplified form)
	if (werr == nil) != (serr == nil) || (werr == nil && isData(want) && !reflect.DeepEqual(want, sgot)) {
		return vlib.Fail("the simplified form %s of %s evaluates to %s; the language gives %s", unparse(simplified), c.E, show(sgot, serr), show(want, werr))
	}
	out := vlib.Outcome{NonTrivial: changed}
	if changed {
		out.Classes = append(out.Classes, "simplified")
	}
	if werr != nil {
		out.Classes = append(out.Classes, "error-expected")
	}
	return out
}

func isData(v interface{}) bool {
	switch v.(type) {
	case int, lang.P:
		return true
	}
	return false
}

func sameValue(a, b interface{}) bool {
	if isData(a) || isData(b) {
		return reflect.DeepEqual(a, b)
	}
	_, ok1 := a.(api.Callable)
	_, ok2 := b.(api.Callable)
	return ok1 && ok2
}

// ---------------------------------------------------------------------------
// calls that build queries, with the real function library

type Q struct {
	K     string `json:"k"` // keyed tagged typed and or lit
	Key   string `json:"key,omitempty"`
	Value string `json:"value,omitempty"`
	Type  string `json:"type,omitempty"`
	A     *Q     `json:"a,omitempty"`
	B     *Q     `json:"b,omitempty"`
	// Literal makes the node a query literal rather than a call; Wrapped
	// passes string arguments through a lambda, so they aren't literals.
	Literal bool `json:"literal,omitempty"`
	Wrapped bool `json:"wrapped,omitempty"`
}

type QCase struct {
	Q Q `json:"q"`
	// Find evaluates "find q" rather than q alone
	Lambda bool `json:"lambda"`
}

func genQ(t *rapid.T, depth int, literal bool) Q {
	kinds := []string{"keyed", "tagged"}
	if depth > 0 {
		kinds = append(kinds, "and", "and", "or", "or", "typed")
	}
	q := Q{K: rapid.SampledFrom(kinds).Draw(t, "k"), Literal: literal || rapid.IntRange(0, 3).Draw(t, "literal") == 0}
	switch q.K {
	case "keyed", "tagged":
		q.Key = rapid.SampledFrom([]string{"#highway", "#building", "name", "#amenity"}).Draw(t, "key")
		q.Value = rapid.SampledFrom([]string{"yes", "primary", "", "a b"}).Draw(t, "value")
		q.Wrapped = !q.Literal && rapid.IntRange(0, 4).Draw(t, "wrapped") == 0
	case "typed":
		q.Type = rapid.SampledFrom([]string{"point", "path", "area", "relation", "bogus", ""}).Draw(t, "type")
		a := genQ(t, depth-1, q.Literal)
		q.A = &a
	default:
		a, b := genQ(t, depth-1, q.Literal), genQ(t, depth-1, q.Literal)
		q.A, q.B = &a, &b
	}
	return q
}

func genQCase(t *rapid.T) QCase {
	return QCase{Q: genQ(t, 3, false), Lambda: rapid.IntRange(0, 4).Draw(t, "lambda") == 0}
}

func (q Q) valid() bool {
	switch q.K {
	case "keyed", "tagged":
		return true
	case "typed":
		return q.A != nil && q.A.valid() && (!q.Literal || q.A.Literal)
	case "and", "or":
		return q.A != nil && q.B != nil && q.A.valid() && q.B.valid() && (!q.Literal || (q.A.Literal && q.B.Literal))
	}
	return false
}

func (q Q) query() b6.Query {
	switch q.K {
	case "keyed":
		return b6.Keyed{Key: q.Key}
	case "tagged":
		return b6.Tagged{Key: q.Key, Value: b6.NewStringExpression(q.Value)}
	case "typed":
		return b6.Typed{Type: b6.FeatureTypeFromString(q.Type), Query: q.A.query()}
	case "and":
		return b6.Intersection{q.A.query(), q.B.query()}
	}
	return b6.Union{q.A.query(), q.B.query()}
}

func str(s string, wrapped bool) b6.Expression {
	if wrapped {
		return b6.NewCallExpression(b6.NewLambdaExpression([]string{"s"}, b6.NewSymbolExpression("s")), []b6.Expression{b6.NewStringExpression(s)})
	}
	return b6.NewStringExpression(s)
}

func (q Q) build() b6.Expression {
	if q.Literal {
		return b6.NewQueryExpression(q.query())
	}
	switch q.K {
	case "keyed":
		return b6.NewCallExpression(b6.NewSymbolExpression("keyed"), []b6.Expression{str(q.Key, q.Wrapped)})
	case "tagged":
		return b6.NewCallExpression(b6.NewSymbolExpression("tagged"), []b6.Expression{str(q.Key, q.Wrapped), str(q.Value, false)})
	case "typed":
		return b6.NewCallExpression(b6.NewSymbolExpression("typed"), []b6.Expression{str(q.Type, false), q.A.build()})
	}
	return b6.NewCallExpression(b6.NewSymbolExpression(q.K), []b6.Expression{q.A.build(), q.B.build()})
}

// flat renders a query with nested intersections of intersections and unions
// of unions flattened, the one rewriting that keeps a query's meaning.
func flat(q b6.Query) string {
	var parts func(q b6.Query, and bool) []string
	parts = func(q b6.Query, and bool) []string {
		var children []b6.Query
		if i, ok := q.(b6.Intersection); ok && and {
			children = i
		} else if u, ok := q.(b6.Union); ok && !and {
			children = u
		} else {
			return []string{flat(q)}
		}
		var out []string
		for _, c := range children {
			out = append(out, parts(c, and)...)
		}
		return out
	}
	switch q := q.(type) {
	case b6.Intersection:
		return "and(" + strings.Join(parts(q, true), ", ") + ")"
	case b6.Union:
		return "or(" + strings.Join(parts(q, false), ", ") + ")"
	case b6.Typed:
		return fmt.Sprintf("typed(%s, %s)", q.Type, flat(q.Query))
	case b6.Keyed:
		return fmt.Sprintf("keyed(%q)", q.Key)
	case b6.Tagged:
		return fmt.Sprintf("tagged(%q, %q)", q.Key, q.Value.String())
	}
	return fmt.Sprintf("%T(%v)", q, q)
}

func checkQ(c QCase) vlib.Outcome {
	if !c.Q.valid() {
		return vlib.Outcome{Skip: true}
	}
	wrap := func(e b6.Expression) b6.Expression {
		if c.Lambda {
			// {-> q} called without arguments
			return b6.NewCallExpression(b6.NewLambdaExpression([]string{}, e), []b6.Expression{})
		}
		return e
	}
	ctx := functions.NewContext(ingest.NewBasicMutableWorld())
	original := wrap(c.Q.build())
	simplified, panicked := simplify(wrap(c.Q.build()), ctx.FunctionSymbols)
	if panicked != nil {
		return vlib.Fail("Simplify panics on %s: %v", unparse(original), panicked)
	}
	got, gerr, p1 := evaluate(original, ctx)
	sgot, serr, p2 := evaluate(simplified, functions.NewContext(ingest.NewBasicMutableWorld()))
	if p1 != nil || p2 != nil {
		return vlib.Fail("evaluating %s panics: %v; simplified to %s: %v", unparse(original), p1, unparse(simplified), p2)
	}
	if (gerr == nil) != (serr == nil) {
		return vlib.Fail("%s evaluates to %s, but its simplified form %s to %s", unparse(original), show(got, gerr), unparse(simplified), show(sgot, serr))
	}
	nested := false
	var walk func(q Q)
	walk = func(q Q) {
		if q.A != nil {
			nested = nested || q.A.K == q.K
			walk(*q.A)
		}
		if q.B != nil {
			walk(*q.B)
		}
	}
	walk(c.Q)
	if gerr == nil {
		gq, ok1 := got.(b6.Query)
		sq, ok2 := sgot.(b6.Query)
		if !ok1 || !ok2 {
			return vlib.Fail("%s evaluates to a %T, its simplified form %s to a %T", unparse(original), got, unparse(simplified), sgot)
		}
		if flat(gq) != flat(sq) || flat(gq) != flat(c.Q.query()) {
			return vlib.Fail("%s evaluates to the query %s, but its simplified form %s to %s (expected %s)", unparse(original), flat(gq), unparse(simplified), flat(sq), flat(c.Q.query()))
		}
	}
	out := vlib.Outcome{NonTrivial: unparse(simplified) != unparse(original)}
	if nested {
		out.Classes = append(out.Classes, "same-kind-nested-on-the-left")
	}
	if gerr != nil {
		out.Classes = append(out.Classes, "error")
	}
	return out
}

func TestPropPrograms(t *testing.T) {
	vlib.Run(t, vlib.Config{ID: "C22", Name: "programs", NoWAL: true,
		Rule: "C21's type-directed programs (depth 1-4) with added lambdas whose body is a library call using their parameters in order, out of order, twice, inside a nested call or lambda, or not at all, and with remaining arguments that are constants, calls (incl. division by zero) or expressions over outer parameters; oracle: Evaluate(Simplify(p)) gives the same value or an error exactly when Evaluate(p) does, both agree with the reference interpreter, and every symbol free in Simplify(p) is free in p; non-trivial = Simplify changed the program"},
		gen, check)
}

func TestPropQueries(t *testing.T) {
	vlib.Run(t, vlib.Config{ID: "C22", Name: "query-calls", NoWAL: true,
		Rule: "nested and/or/typed/keyed/tagged calls to depth 3 over the real function library, with arguments that are string and query literals (incl. left-nested same-kind literals), strings passed through a lambda, unknown type names, optionally inside a lambda without parameters that is called; oracle: the simplified expression evaluates to the same query as the original and as the generated tree, comparing with nested same-kind operands flattened; non-trivial = Simplify changed the expression"},
		genQCase, checkQ)
}
