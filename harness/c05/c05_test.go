// C05: spatial predicates agree with exact geometry.
package c05

import (
	"fmt"
	"testing"

	"diagonal.works/b6"
	"github.com/golang/geo/s1"
	"github.com/golang/geo/s2"
	"pgregory.net/rapid"
	"verif/vlib"
	"verif/wm"
)

type Case struct {
	Set     wm.GeoSet     `json:"set"`
	Queries []wm.GeoQuery `json:"queries"`
}

func gen(t *rapid.T) Case {
	c := Case{Set: wm.GenGeoSet(t, wm.GeoConfig{MaxFeatures: 6})}
	n := rapid.IntRange(1, 6).Draw(t, "nqueries")
	for i := 0; i < n; i++ {
		q := wm.GenGeoQuery(t, c.Set)
		q.Typed, q.AndKey = 0, "" // C05 is about the region predicates themselves
		c.Queries = append(c.Queries, q)
	}
	return c
}

const margin = s1.Angle(1e-9)

// geom is the exact geometry of a feature or query region.
type geom struct {
	kind  string // point, path, area
	pts   []s2.Point
	polys []*s2.Polygon
}

func geomOf(f wm.FeatureS) geom {
	switch {
	case f.Point != nil:
		return geom{kind: "point", pts: []s2.Point{f.Point.Point()}}
	case len(f.Path) > 0:
		g := geom{kind: "path"}
		for _, e := range f.Path {
			if e.LL == nil {
				return geom{}
			}
			g.pts = append(g.pts, e.LL.Point())
		}
		return g
	case len(f.Polys) > 0:
		g := geom{kind: "area"}
		for _, p := range f.Polys {
			g.polys = append(g.polys, wm.PolygonOf(p))
		}
		return g
	}
	return geom{}
}

type edge struct{ a, b s2.Point }

func (g geom) edges() []edge {
	var out []edge
	switch g.kind {
	case "path":
		for i := 0; i+1 < len(g.pts); i++ {
			out = append(out, edge{g.pts[i], g.pts[i+1]})
		}
	case "area":
		for _, p := range g.polys {
			for i := 0; i < p.NumLoops(); i++ {
				l := p.Loop(i)
				for j := 0; j < l.NumEdges(); j++ {
					e := l.Edge(j)
					out = append(out, edge{e.V0, e.V1})
				}
			}
		}
	}
	return out
}

func (g geom) vertices() []s2.Point {
	if g.kind != "area" {
		return g.pts
	}
	var out []s2.Point
	for _, p := range g.polys {
		for i := 0; i < p.NumLoops(); i++ {
			out = append(out, p.Loop(i).Vertices()...)
		}
	}
	return out
}

// distToBoundary is the distance from p to the nearest vertex/edge of g.
func distToBoundary(p s2.Point, g geom) s1.Angle {
	d := s1.InfAngle()
	for _, v := range g.vertices() {
		if x := p.Distance(v); x < d {
			d = x
		}
	}
	for _, e := range g.edges() {
		if x := s2.DistanceFromSegment(p, e.a, e.b); x < d {
			d = x
		}
	}
	return d
}

// sep is the smallest vertex-to-boundary distance between two geometries:
// below the margin the decision is excluded.
func sep(a, b geom) s1.Angle {
	d := s1.InfAngle()
	for _, v := range a.vertices() {
		if x := distToBoundary(v, b); x < d {
			d = x
		}
	}
	for _, v := range b.vertices() {
		if x := distToBoundary(v, a); x < d {
			d = x
		}
	}
	return d
}

func inAny(p s2.Point, polys []*s2.Polygon) bool {
	for _, poly := range polys {
		if poly.ContainsPoint(p) {
			return true
		}
	}
	return false
}

func edgesCross(a, b geom) bool {
	for _, e := range a.edges() {
		for _, f := range b.edges() {
			if s2.CrossingSign(e.a, e.b, f.a, f.b) == s2.Cross {
				return true
			}
		}
	}
	return false
}

// touches decides whether two geometries share a point (exactly), assuming
// their boundaries are separated by more than the margin wherever it matters.
func touches(a, b geom) bool {
	if edgesCross(a, b) {
		return true
	}
	if b.kind == "area" {
		for _, v := range a.vertices() {
			if inAny(v, b.polys) {
				return true
			}
		}
	}
	if a.kind == "area" {
		for _, v := range b.vertices() {
			if inAny(v, a.polys) {
				return true
			}
		}
	}
	return false
}

type verdict int

const (
	vFalse verdict = iota
	vTrue
	vUnknown
)

func boolv(b bool) verdict {
	if b {
		return vTrue
	}
	return vFalse
}

func cellGeom(ids []string) geom {
	g := geom{kind: "area"}
	for _, tok := range ids {
		c := s2.CellFromCellID(s2.CellIDFromToken(tok))
		g.polys = append(g.polys, s2.PolygonFromLoops([]*s2.Loop{s2.LoopFromPoints([]s2.Point{c.Vertex(0), c.Vertex(1), c.Vertex(2), c.Vertex(3)})}))
	}
	return g
}

// exact decides whether feature geometry f meets the query region.
func exact(q wm.GeoQuery, f geom, features map[b6.FeatureID]wm.FeatureS, fid b6.FeatureID) verdict {
	switch q.Kind {
	case "cap":
		c, r := q.Center.Point(), s1.Angle(q.RadiusM/wm.EarthRadiusM)
		if f.kind == "area" && inAny(c, f.polys) {
			if distToBoundary(c, f) < margin {
				return vUnknown
			}
			return vTrue
		}
		d := distToBoundary(c, f)
		if f.kind == "area" && d < margin {
			return vUnknown
		}
		if (d - r).Abs() < margin {
			return vUnknown
		}
		return boolv(d <= r)
	case "cells":
		cg := cellGeom(q.Cells)
		if f.kind == "point" {
			if distToBoundary(f.pts[0], cg) < margin {
				return vUnknown
			}
			return boolv(inAny(f.pts[0], cg.polys))
		}
		if sep(f, cg) < margin {
			return vUnknown
		}
		return boolv(touches(f, cg))
	case "point":
		p := q.Center.Point()
		switch f.kind {
		case "point":
			// the feature's point goes through a decimal-degree string, so nominally equal
			// coordinates need not be bit-identical: that is within the excluded margin
			if f.pts[0].Distance(p) < margin {
				return vUnknown
			}
			return vFalse
		case "path":
			d := distToBoundary(p, f)
			if d == 0 {
				return vTrue
			}
			if d > 1e-8 {
				return vFalse
			}
			return vUnknown // within the implementation's millimetre tolerance zone
		default:
			if distToBoundary(p, f) < margin {
				return vUnknown
			}
			return boolv(inAny(p, f.polys))
		}
	case "polyline":
		qg := geom{kind: "path"}
		for _, p := range q.Points {
			qg.pts = append(qg.pts, p.Point())
		}
		switch f.kind {
		case "point":
			d := distToBoundary(f.pts[0], qg)
			if d == 0 {
				return vTrue
			}
			if d > 1e-8 {
				return vFalse
			}
			return vUnknown
		case "path":
			if sep(f, qg) < margin {
				return vUnknown
			}
			return boolv(edgesCross(f, qg))
		default:
			// the documented approximation: a vertex of the polyline inside the polygon
			for _, v := range qg.pts {
				if distToBoundary(v, f) < margin {
					return vUnknown
				}
			}
			for _, v := range qg.pts {
				if inAny(v, f.polys) {
					return vTrue
				}
			}
			return vFalse
		}
	case "multipolygon":
		qg := geom{kind: "area"}
		for _, p := range q.Polys {
			qg.polys = append(qg.polys, wm.PolygonOf(p))
		}
		switch f.kind {
		case "point":
			if distToBoundary(f.pts[0], qg) < margin {
				return vUnknown
			}
			return boolv(inAny(f.pts[0], qg.polys))
		case "path":
			for _, v := range f.pts {
				if distToBoundary(v, qg) < margin {
					return vUnknown
				}
			}
			for _, v := range f.pts {
				if inAny(v, qg.polys) {
					return vTrue
				}
			}
			return vFalse
		default:
			if sep(f, qg) < margin {
				return vUnknown
			}
			return boolv(touches(f, qg))
		}
	case "feature":
		target, ok := features[q.Feature.ID()]
		if !ok {
			return vFalse
		}
		if q.Feature.ID() == fid {
			return vTrue
		}
		tg := geomOf(target)
		switch tg.kind {
		case "point":
			ll := *target.Point
			return exact(wm.GeoQuery{Kind: "point", Center: &ll}, f, features, fid)
		case "path":
			var pts []wm.LL
			for _, e := range target.Path {
				pts = append(pts, *e.LL)
			}
			return exact(wm.GeoQuery{Kind: "polyline", Points: pts}, f, features, fid)
		case "area":
			return exact(wm.GeoQuery{Kind: "multipolygon", Polys: target.Polys}, f, features, fid)
		}
	}
	return vUnknown
}

func interesting(q wm.GeoQuery, f wm.FeatureS) bool {
	polys := append([]wm.PolyS{}, q.Polys...)
	polys = append(polys, f.Polys...)
	if len(q.Polys) >= 2 || len(f.Polys) >= 2 {
		return true
	}
	for _, p := range polys {
		if len(p.Loops) > 1 || len(p.Loops[0]) >= 6 {
			return true
		}
	}
	return false
}

func check(c Case) vlib.Outcome {
	if len(c.Set.Features) == 0 || len(c.Queries) == 0 {
		return vlib.Outcome{Skip: true}
	}
	features := map[b6.FeatureID]wm.FeatureS{}
	for _, f := range c.Set.Features {
		if geomOf(f).kind == "" {
			return vlib.Outcome{Skip: true}
		}
		features[f.ID.ID()] = f
	}
	// polygons are polygons: holes inside their shell, no loops crossing
	for _, f := range c.Set.Features {
		for _, p := range f.Polys {
			if len(p.Loops) > 0 && !wm.ValidPoly(p) {
				return vlib.Outcome{Skip: true, Classes: []string{"skipped:polygon-not-valid"}}
			}
		}
	}
	for _, q := range c.Queries {
		for _, p := range q.Polys {
			if !wm.ValidPoly(p) {
				return vlib.Outcome{Skip: true, Classes: []string{"skipped:polygon-not-valid"}}
			}
		}
	}
	w, err := wm.BuildBasic(c.Set.Features, 1, true)
	if err != nil {
		return vlib.Outcome{Skip: true, Classes: []string{"skipped:set-not-valid"}}
	}
	out := vlib.Outcome{}
	decided, excluded := 0, 0
	for _, q := range c.Queries {
		if !q.Valid() {
			return vlib.Outcome{Skip: true}
		}
		region := q.Region()
		for _, fs := range c.Set.Features {
			id := fs.ID.ID()
			f := w.FindFeatureByID(id)
			if f == nil {
				return vlib.Fail("feature %v missing from the world", id)
			}
			want := exact(q, geomOf(fs), features, id)
			if want == vUnknown {
				excluded++
				continue
			}
			decided++
			got := region.Matches(f, w)
			if got != (want == vTrue) {
				return vlib.Fail("%s query %s on %s %v: Matches = %v, exact geometry says %v", q.Kind, region, geomOf(fs).kind, id, got, want == vTrue)
			}
			if interesting(q, fs) {
				out.NonTrivial = true
			}
			out.Classes = append(out.Classes, fmt.Sprintf("%s-vs-%s=%v", q.Kind, geomOf(fs).kind, want == vTrue))
		}
	}
	if decided == 0 {
		return vlib.Outcome{Skip: true, Classes: []string{"skipped:all-within-margin"}}
	}
	return out
}

func TestProp(t *testing.T) {
	vlib.Run(t, vlib.Config{ID: "C05", Name: "predicates", CaseTimeout: 60e9,
		Rule: "2-6 features (tagged points, lat/lng paths, areas of 1-3 lat/lng polygons: convex, star-shaped non-convex, with holes) at scales from 3e-6 to 0.3 degrees around anchors incl. the equator, a cube-face edge, the far north and the antimeridian; 1-6 query regions (caps, 1-3 cells at related levels, points, polylines, multipolygons of 1-3 parts, intersecting-feature) placed on feature vertices, polygon centres, nudged vertices and random offsets; Query.Matches for every (query, feature) pair is compared with predicates written from s2 primitives (distance to segments, point-in-polygon, edge crossing); pairs whose decisive margin is below 1e-9 rad are excluded and counted; the polyline-versus-polygon case uses the documented vertex-inside approximation; non-trivial = a decided pair involving >= 2 polygons, a non-convex polygon or a hole"},
		gen, check)
}
