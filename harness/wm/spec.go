// Package wm holds the world model shared by the world-level checks: JSON-able
// feature specifications, their conversion to ingest features, world builders,
// and Observe, a canonical snapshot of every read query the b6.World
// interface offers.
package wm

import (
	"fmt"
	"sort"

	"diagonal.works/b6"
	"diagonal.works/b6/ingest"
	"github.com/golang/geo/s1"
	"github.com/golang/geo/s2"
)

type LL struct {
	Lat int32 `json:"lat"` // E7
	Lng int32 `json:"lng"`
}

func (l LL) S2() s2.LatLng {
	return s2.LatLng{Lat: s1.Angle(l.Lat) * s1.E7, Lng: s1.Angle(l.Lng) * s1.E7}
}

func (l LL) Point() s2.Point { return s2.PointFromLatLng(l.S2()) }

func LLFromS2(ll s2.LatLng) LL { return LL{ll.Lat.E7(), ll.Lng.E7()} }

func LLFromPoint(p s2.Point) LL { return LLFromS2(s2.LatLngFromPoint(p)) }

var Types = []b6.FeatureType{b6.FeatureTypePoint, b6.FeatureTypePath, b6.FeatureTypeArea, b6.FeatureTypeRelation, b6.FeatureTypeCollection}

type FID struct {
	T  int    `json:"t"` // index into Types
	NS string `json:"ns"`
	V  uint64 `json:"v,string"`
}

func (f FID) ID() b6.FeatureID {
	return b6.FeatureID{Type: Types[((f.T%len(Types))+len(Types))%len(Types)], Namespace: b6.Namespace(f.NS), Value: f.V}
}

func FromID(id b6.FeatureID) FID {
	for i, t := range Types {
		if t == id.Type {
			return FID{i, string(id.Namespace), id.Value}
		}
	}
	return FID{0, string(id.Namespace), id.Value}
}

type TagS struct {
	K string `json:"k"`
	V string `json:"v"`
}

type PathEl struct {
	Ref *FID `json:"ref,omitempty"`
	LL  *LL  `json:"ll,omitempty"`
}

type PolyS struct {
	Paths []FID  `json:"paths,omitempty"`
	Loops [][]LL `json:"loops,omitempty"` // first loop outer (CCW), others holes (CW)
}

type MemberS struct {
	ID   FID    `json:"id"`
	Role string `json:"role,omitempty"`
}

type CollEl struct {
	Int *int    `json:"int,omitempty"`
	Str *string `json:"str,omitempty"`
	ID  *FID    `json:"id,omitempty"`
}

type FeatureS struct {
	ID      FID       `json:"id"`
	Tags    []TagS    `json:"tags,omitempty"`
	Point   *LL       `json:"point,omitempty"`
	Path    []PathEl  `json:"path,omitempty"`
	Polys   []PolyS   `json:"polys,omitempty"`
	Members []MemberS `json:"members,omitempty"`
	Keys    []CollEl  `json:"keys,omitempty"`
	Values  []CollEl  `json:"values,omitempty"`
}

func (f FeatureS) Clone() FeatureS {
	c := f
	c.Tags = append([]TagS{}, f.Tags...)
	c.Path = append([]PathEl{}, f.Path...)
	c.Polys = append([]PolyS{}, f.Polys...)
	c.Members = append([]MemberS{}, f.Members...)
	return c
}

func tagsOf(ts []TagS) b6.Tags {
	out := make(b6.Tags, 0, len(ts)+1)
	for _, t := range ts {
		out = append(out, b6.Tag{Key: t.K, Value: b6.NewStringExpression(t.V)})
	}
	return out
}

func collValue(e CollEl) interface{} {
	switch {
	case e.Int != nil:
		return *e.Int
	case e.Str != nil:
		return *e.Str
	case e.ID != nil:
		return e.ID.ID()
	}
	return nil
}

// PolygonOf builds the s2 polygon of a lat/lng polygon specification.
func PolygonOf(p PolyS) *s2.Polygon {
	loops := make([]*s2.Loop, 0, len(p.Loops))
	for _, l := range p.Loops {
		pts := make([]s2.Point, 0, len(l))
		for _, v := range l {
			pts = append(pts, v.Point())
		}
		loops = append(loops, s2.LoopFromPoints(pts))
	}
	return s2.PolygonFromLoops(loops)
}

// ValidPoly reports whether a lat/lng polygon specification is a polygon: every
// loop a valid s2 loop, the loops after the first strictly inside the first and
// outside each other, and no two loops crossing. (Shrinking moves vertices, and
// can leave a hole poking through its shell.)
func ValidPoly(p PolyS) bool {
	if len(p.Loops) == 0 {
		return false
	}
	loops := make([]*s2.Loop, 0, len(p.Loops))
	for _, l := range p.Loops {
		if len(l) < 3 {
			return false
		}
		pts := make([]s2.Point, 0, len(l))
		for _, v := range l {
			pts = append(pts, v.Point())
		}
		loop := s2.LoopFromPoints(pts)
		if loop.Validate() != nil {
			return false
		}
		loops = append(loops, loop)
	}
	for i, a := range loops {
		for j, b := range loops {
			if i >= j {
				continue
			}
			for k := 0; k < a.NumVertices(); k++ {
				for m := 0; m < b.NumVertices(); m++ {
					if s2.CrossingSign(a.Vertex(k), a.Vertex(k+1), b.Vertex(m), b.Vertex(m+1)) != s2.DoNotCross {
						return false
					}
				}
			}
			for m := 0; m < b.NumVertices(); m++ {
				if inside := a.ContainsPoint(b.Vertex(m)); inside != (i == 0) {
					return false // holes lie inside the shell, and outside each other
				}
			}
		}
	}
	return true
}

// ToIngest converts a specification to a fresh ingest feature. Geometry tags
// go after the other tags, as FillFromOSM does.
func ToIngest(f FeatureS) ingest.Feature {
	id := f.ID.ID()
	switch id.Type {
	case b6.FeatureTypePoint:
		g := &ingest.GenericFeature{ID: id, Tags: tagsOf(f.Tags)}
		if f.Point != nil {
			g.Tags = append(g.Tags, b6.Tag{Key: b6.PointTag, Value: b6.NewPointExpressionFromLatLng(f.Point.S2())})
		}
		return g
	case b6.FeatureTypePath:
		g := &ingest.GenericFeature{ID: id, Tags: tagsOf(f.Tags)}
		els := make([]b6.AnyExpression, 0, len(f.Path))
		for _, e := range f.Path {
			if e.Ref != nil {
				els = append(els, b6.FeatureIDExpression(e.Ref.ID()))
			} else if e.LL != nil {
				els = append(els, b6.PointExpression(e.LL.S2()))
			}
		}
		g.Tags = append(g.Tags, b6.Tag{Key: b6.PathTag, Value: b6.NewExpressions(els)})
		return g
	case b6.FeatureTypeArea:
		a := ingest.NewAreaFeature(len(f.Polys))
		a.AreaID = id.ToAreaID()
		a.Tags = tagsOf(f.Tags)
		for i, p := range f.Polys {
			if len(p.Paths) > 0 {
				ids := make([]b6.FeatureID, 0, len(p.Paths))
				for _, pid := range p.Paths {
					ids = append(ids, pid.ID())
				}
				a.SetPathIDs(i, ids)
			} else {
				a.SetPolygon(i, PolygonOf(p))
			}
		}
		return a
	case b6.FeatureTypeRelation:
		r := ingest.NewRelationFeature(len(f.Members))
		r.RelationID = id.ToRelationID()
		r.Tags = tagsOf(f.Tags)
		for i, m := range f.Members {
			r.Members[i] = b6.RelationMember{ID: m.ID.ID(), Role: m.Role}
		}
		return r
	case b6.FeatureTypeCollection:
		c := &ingest.CollectionFeature{CollectionID: id.ToCollectionID(), Tags: tagsOf(f.Tags)}
		for i := range f.Keys {
			c.Keys = append(c.Keys, collValue(f.Keys[i]))
			if i < len(f.Values) {
				c.Values = append(c.Values, collValue(f.Values[i]))
			} else {
				c.Values = append(c.Values, 0)
			}
		}
		return c
	}
	panic(fmt.Sprintf("wm: bad feature type %v", id.Type))
}

// SortForInsertion orders specs so that referenced features come first
// (points, paths, areas, relations, collections; stable within a type).
func SortForInsertion(fs []FeatureS) []FeatureS {
	out := append([]FeatureS{}, fs...)
	sort.SliceStable(out, func(i, j int) bool { return out[i].ID.ID().Type < out[j].ID.ID().Type })
	return out
}
