package wm

import (
	"fmt"
	"math"

	"diagonal.works/b6"
	"diagonal.works/b6/geometry"
	"github.com/golang/geo/s1"
	"github.com/golang/geo/s2"
	"pgregory.net/rapid"
)

// GeoQuery is a JSON-able spatial query.
type GeoQuery struct {
	Kind    string   `json:"kind"` // cap, cells, point, polyline, multipolygon, feature
	Center  *LL      `json:"center,omitempty"`
	RadiusM float64  `json:"radius_m,omitempty"`
	Cells   []string `json:"cells,omitempty"` // cell ID tokens
	Points  []LL     `json:"points,omitempty"`
	Polys   []PolyS  `json:"polys,omitempty"`
	Feature *FID     `json:"feature,omitempty"`
	Typed   int      `json:"typed,omitempty"`   // 0 = none, 1..4 = point..relation
	AndKey  string   `json:"and_key,omitempty"` // intersect with Keyed{AndKey}
}

const EarthRadiusM = 6371010.0

func (q GeoQuery) Region() b6.Query {
	switch q.Kind {
	case "cap":
		return b6.NewIntersectsCap(s2.CapFromCenterAngle(q.Center.Point(), s1.Angle(q.RadiusM/EarthRadiusM)))
	case "cells":
		cells := make([]s2.Cell, 0, len(q.Cells))
		for _, t := range q.Cells {
			cells = append(cells, s2.CellFromCellID(s2.CellIDFromToken(t)))
		}
		return b6.IntersectsCells{Cells: cells}
	case "point":
		return b6.IntersectsPoint{Point: q.Center.Point()}
	case "polyline":
		pl := make(s2.Polyline, 0, len(q.Points))
		for _, p := range q.Points {
			pl = append(pl, p.Point())
		}
		return b6.IntersectsPolyline{Polyline: &pl}
	case "multipolygon":
		mp := geometry.MultiPolygon{}
		for _, p := range q.Polys {
			mp = append(mp, PolygonOf(p))
		}
		return b6.IntersectsMultiPolygon{MultiPolygon: mp}
	case "feature":
		return b6.IntersectsFeature{ID: q.Feature.ID()}
	}
	panic("wm: bad geo query kind " + q.Kind)
}

// Query wraps the region in Typed / Intersection as requested.
func (q GeoQuery) Query() b6.Query {
	out := q.Region()
	if q.AndKey != "" {
		out = b6.Intersection{out, b6.Keyed{Key: q.AndKey}}
	}
	if q.Typed >= 1 && q.Typed <= 4 {
		out = b6.Typed{Type: Types[q.Typed-1], Query: out}
	}
	return out
}

func (q GeoQuery) Valid() bool {
	switch q.Kind {
	case "cap":
		return q.Center != nil && q.RadiusM > 0 && q.RadiusM < 1e7
	case "cells":
		for _, t := range q.Cells {
			if !s2.CellIDFromToken(t).IsValid() {
				return false
			}
		}
		return len(q.Cells) > 0
	case "point":
		return q.Center != nil
	case "polyline":
		return len(q.Points) >= 2
	case "multipolygon":
		for _, p := range q.Polys {
			if len(p.Loops) == 0 {
				return false
			}
			for _, l := range p.Loops {
				if len(l) < 3 {
					return false
				}
			}
		}
		return len(q.Polys) > 0
	case "feature":
		return q.Feature != nil
	}
	return false
}

type GeoConfig struct {
	MaxFeatures int
	Huge        bool // extents of tens of degrees (coverings reach face cells)
	Anchors     []LL
}

var DefaultAnchors = []LL{
	{515350000, -1250000},    // London
	{1000, 2000},             // equator / prime meridian: a cube face centre-ish, face boundaries nearby at +-45 degrees
	{-338000000, 1512000000}, // Sydney
	{850000000, 100000000},   // far north
	{100000000, 1799990000},  // just west of the antimeridian
	{353000000, 450000000},   // lng 45: a face edge
}

// GeoSet is a feature set made of tagged points, lat/lng paths and lat/lng
// polygons (convex, star-shaped non-convex, with holes) at a generated scale.
type GeoSet struct {
	Features []FeatureS `json:"features"`
	Anchor   LL         `json:"anchor"`
	ScaleE7  int        `json:"scale_e7"` // typical extent in E7 units
}

func clampLL(lat, lng int64) LL {
	if lat > 890000000 {
		lat = 890000000
	}
	if lat < -890000000 {
		lat = -890000000
	}
	for lng > 1800000000 {
		lng -= 3600000000
	}
	for lng < -1800000000 {
		lng += 3600000000
	}
	return LL{int32(lat), int32(lng)}
}

// ring returns k vertices around (cy,cx); star alternates the radius.
func ring(t *rapid.T, label string, k int, cy, cx int64, r float64, star bool) []LL {
	out := make([]LL, 0, k)
	for j := 0; j < k; j++ {
		a := 2 * math.Pi * (float64(j) + float64(rapid.IntRange(-15, 15).Draw(t, label+"jitter"))/100) / float64(k)
		rr := r
		if star && j%2 == 1 {
			rr = r * 0.4
		}
		out = append(out, clampLL(cy+int64(rr*math.Sin(a)), cx+int64(rr*math.Cos(a))))
	}
	return out
}

var geoKeys = []string{"#amenity", "#highway", "name"}

func GenGeoSet(t *rapid.T, cfg GeoConfig) GeoSet {
	anchors := cfg.Anchors
	if len(anchors) == 0 {
		anchors = DefaultAnchors
	}
	scales := []int{30, 300, 5000, 100000, 3000000}
	if cfg.Huge {
		scales = append(scales, 100000000, 400000000)
	}
	s := GeoSet{Anchor: rapid.SampledFrom(anchors).Draw(t, "anchor"), ScaleE7: rapid.SampledFrom(scales).Draw(t, "scale")}
	if cfg.MaxFeatures < 2 {
		cfg.MaxFeatures = 8
	}
	n := rapid.IntRange(2, cfg.MaxFeatures).Draw(t, "nfeatures")
	scale := int64(s.ScaleE7)
	off := func(label string) int64 {
		return int64(rapid.IntRange(-1000, 1000).Draw(t, label)) * scale / 250
	}
	tags := func(label string) []TagS {
		return []TagS{{K: rapid.SampledFrom(geoKeys).Draw(t, label+"key"), V: rapid.SampledFrom([]string{"a", "b"}).Draw(t, label+"val")}}
	}
	for i := 0; i < n; i++ {
		cy, cx := int64(s.Anchor.Lat)+off("cy"), int64(s.Anchor.Lng)+off("cx")
		switch rapid.IntRange(0, 5).Draw(t, "geokind") {
		case 0, 1:
			ll := clampLL(cy, cx)
			s.Features = append(s.Features, FeatureS{ID: FID{T: 0, NS: "diagonal.works/ns/geo", V: uint64(i + 1)}, Point: &ll, Tags: tags("pt")})
		case 2, 3:
			k := rapid.IntRange(2, 5).Draw(t, "pathk")
			var els []PathEl
			for j := 0; j < k; j++ {
				ll := clampLL(cy+off("py"), cx+off("px"))
				if j > 0 && *els[j-1].LL == ll {
					ll.Lat += 7
				}
				els = append(els, PathEl{LL: &ll})
			}
			s.Features = append(s.Features, FeatureS{ID: FID{T: 1, NS: "diagonal.works/ns/geo", V: uint64(i + 1)}, Path: els, Tags: tags("path")})
		default:
			np := rapid.IntRange(1, 3).Draw(t, "npolys")
			var polys []PolyS
			for j := 0; j < np; j++ {
				pcy, pcx := cy+int64(j)*scale*3, cx
				r := float64(scale) * float64(rapid.IntRange(30, 100).Draw(t, "pr")) / 100
				star := rapid.IntRange(0, 2).Draw(t, "star") == 0
				k := rapid.IntRange(3, 8).Draw(t, "polyk")
				if star {
					k = 2 * rapid.IntRange(3, 5).Draw(t, "stark")
				}
				p := PolyS{Loops: [][]LL{ring(t, "outer", k, pcy, pcx, r, star)}}
				if !star && rapid.IntRange(0, 2).Draw(t, "hole") == 0 {
					p.Loops = append(p.Loops, ring(t, "hole", rapid.IntRange(3, 5).Draw(t, "holek"), pcy, pcx, r/3, false))
				}
				polys = append(polys, p)
			}
			s.Features = append(s.Features, FeatureS{ID: FID{T: 2, NS: "diagonal.works/ns/geo", V: uint64(i + 1)}, Polys: polys, Tags: tags("area")})
		}
	}
	return s
}

// GenGeoQuery draws a query placed relative to the set's features.
func GenGeoQuery(t *rapid.T, s GeoSet) GeoQuery {
	scale := int64(s.ScaleE7)
	// a location: a feature vertex, the centre of a polygon, or a random offset from the anchor
	var vertices []LL
	for _, f := range s.Features {
		if f.Point != nil {
			vertices = append(vertices, *f.Point)
		}
		for _, e := range f.Path {
			if e.LL != nil {
				vertices = append(vertices, *e.LL)
			}
		}
		for _, p := range f.Polys {
			var sy, sx, n int64
			for _, v := range p.Loops[0] {
				vertices = append(vertices, v)
				sy, sx, n = sy+int64(v.Lat), sx+int64(v.Lng), n+1
			}
			vertices = append(vertices, clampLL(sy/n, sx/n)) // near the centre
		}
	}
	loc := func(label string) LL {
		if len(vertices) > 0 && rapid.IntRange(0, 3).Draw(t, label+"onvertex") > 0 {
			v := rapid.SampledFrom(vertices).Draw(t, label+"vertex")
			if rapid.Bool().Draw(t, label+"nudge") {
				v = clampLL(int64(v.Lat)+int64(rapid.IntRange(-1000, 1000).Draw(t, label+"ny"))*scale/2000, int64(v.Lng)+int64(rapid.IntRange(-1000, 1000).Draw(t, label+"nx"))*scale/2000)
			}
			return v
		}
		return clampLL(int64(s.Anchor.Lat)+int64(rapid.IntRange(-1000, 1000).Draw(t, label+"y"))*scale/200, int64(s.Anchor.Lng)+int64(rapid.IntRange(-1000, 1000).Draw(t, label+"x"))*scale/200)
	}
	metres := float64(scale) * 0.0111 // one E7 unit is about 1.11 cm of latitude
	q := GeoQuery{Typed: rapid.SampledFrom([]int{0, 0, 0, 1, 2, 3}).Draw(t, "typed"), AndKey: rapid.SampledFrom([]string{"", "", "", "#amenity"}).Draw(t, "andkey")}
	switch rapid.IntRange(0, 6).Draw(t, "querykind") {
	case 0, 1:
		c := loc("cap")
		q.Kind, q.Center = "cap", &c
		q.RadiusM = metres * rapid.SampledFrom([]float64{0.01, 0.1, 0.3, 1, 3}).Draw(t, "radius")
		if q.RadiusM < 0.5 {
			q.RadiusM = 0.5
		}
	case 2:
		q.Kind = "cells"
		n := rapid.IntRange(1, 3).Draw(t, "ncells")
		for i := 0; i < n; i++ {
			l := loc("cell")
			// a level whose cells are comparable to the scale, or much coarser/finer
			level := 30 - int(math.Log2(float64(scale)+1)) + rapid.IntRange(-6, 2).Draw(t, "dlevel")
			if level < 0 {
				level = 0
			}
			if level > 30 {
				level = 30
			}
			q.Cells = append(q.Cells, s2.CellIDFromLatLng(l.S2()).Parent(level).ToToken())
		}
	case 3:
		c := loc("point")
		q.Kind, q.Center = "point", &c
	case 4:
		q.Kind = "polyline"
		n := rapid.IntRange(2, 4).Draw(t, "npolyline")
		for i := 0; i < n; i++ {
			q.Points = append(q.Points, loc("pl"))
		}
	case 5:
		q.Kind = "multipolygon"
		n := rapid.IntRange(1, 3).Draw(t, "nqpolys")
		for i := 0; i < n; i++ {
			c := loc("mp")
			star := rapid.IntRange(0, 2).Draw(t, "qstar") == 0
			k := rapid.IntRange(3, 6).Draw(t, "qk")
			if star {
				k = 2 * rapid.IntRange(3, 5).Draw(t, "qstark")
			}
			r := float64(scale) * float64(rapid.IntRange(10, 150).Draw(t, "qr")) / 100
			p := PolyS{Loops: [][]LL{ring(t, "qouter", k, int64(c.Lat), int64(c.Lng), r, star)}}
			if !star && rapid.IntRange(0, 2).Draw(t, "qhole") == 0 {
				p.Loops = append(p.Loops, ring(t, "qhole", 4, int64(c.Lat), int64(c.Lng), r/3, false))
			}
			q.Polys = append(q.Polys, p)
		}
	default:
		f := rapid.SampledFrom(s.Features).Draw(t, "qfeature")
		id := f.ID
		q.Kind, q.Feature = "feature", &id
	}
	return q
}

func (q GeoQuery) String() string { return fmt.Sprintf("%+v", q.Query()) }
