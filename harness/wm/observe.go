package wm

import (
	"fmt"
	"sort"
	"strings"

	"diagonal.works/b6"
	"github.com/golang/geo/s2"
)

// Observation maps a query description to a canonical rendering of its answer.
type Observation map[string]string

type ObserveOptions struct {
	SkipTraverse   bool
	SkipReferences bool
	SkipEach       bool
	DirectOnly     func(key string) bool
}

func catch(f func() string) (out string) {
	defer func() {
		if p := recover(); p != nil {
			out = fmt.Sprintf("PANIC: %v", p)
		}
	}()
	return f()
}

func e7(p s2.Point) string {
	if p.Norm() == 0 {
		return "nil"
	}
	ll := LLFromPoint(p)
	return fmt.Sprintf("%d,%d", ll.Lat, ll.Lng)
}

// canonical rotation of a ring of strings
func rotate(vs []string) []string {
	if len(vs) == 0 {
		return vs
	}
	best := 0
	for i := range vs {
		for k := 0; k < len(vs); k++ {
			a, b := vs[(i+k)%len(vs)], vs[(best+k)%len(vs)]
			if a != b {
				if a < b {
					best = i
				}
				break
			}
		}
	}
	out := make([]string, len(vs))
	for k := range vs {
		out[k] = vs[(best+k)%len(vs)]
	}
	return out
}

func polygonString(p *s2.Polygon) string {
	if p == nil {
		return "nil"
	}
	loops := make([]string, 0, p.NumLoops())
	for i := 0; i < p.NumLoops(); i++ {
		l := p.Loop(i)
		vs := make([]string, 0, l.NumVertices())
		for j := 0; j < l.NumVertices(); j++ {
			vs = append(vs, e7(l.Vertex(j)))
		}
		loops = append(loops, "("+strings.Join(rotate(vs), " ")+")")
	}
	return strings.Join(loops, "")
}

func valueString(key string, v b6.Expression) string {
	switch x := v.AnyExpression.(type) {
	case b6.PointExpression:
		return "point:" + e7(s2.PointFromLatLng(s2.LatLng(x)))
	case b6.Expressions:
		parts := make([]string, 0, len(x))
		for _, e := range x {
			switch y := e.(type) {
			case b6.PointExpression:
				parts = append(parts, e7(s2.PointFromLatLng(s2.LatLng(y))))
			case b6.FeatureIDExpression:
				parts = append(parts, b6.FeatureID(y).String())
			default:
				parts = append(parts, fmt.Sprintf("%T:%s", e, e.String()))
			}
		}
		return "list:[" + strings.Join(parts, " ") + "]"
	case b6.StringExpression:
		return "string:" + string(x)
	case nil:
		return "nil"
	default:
		return fmt.Sprintf("%T:%s", v.AnyExpression, v.String())
	}
}

// TagsString renders tags as a sorted multiset of key=kind:value.
func TagsString(tags b6.Tags) string {
	parts := make([]string, 0, len(tags))
	for _, t := range tags {
		parts = append(parts, t.Key+"="+valueString(t.Key, t.Value))
	}
	sort.Strings(parts)
	return "{" + strings.Join(parts, "; ") + "}"
}

// FeatureString renders everything observable about a feature.
func FeatureString(f b6.Feature) string {
	if f == nil {
		return "absent"
	}
	return catch(func() string {
		var b strings.Builder
		fmt.Fprintf(&b, "%s tags=%s", f.FeatureID(), TagsString(f.AllTags()))
		for _, t := range f.AllTags() {
			if g := f.Get(t.Key); !g.IsValid() {
				fmt.Fprintf(&b, " GET(%s)=invalid", t.Key)
			}
		}
		switch x := f.(type) {
		case b6.AreaFeature:
			fmt.Fprintf(&b, " area[%d]", x.Len())
			for i := 0; i < x.Len(); i++ {
				fmt.Fprintf(&b, " poly%d=%s", i, catch(func() string { return polygonString(x.Polygon(i)) }))
				paths := catch(func() string {
					fs := x.Feature(i)
					if fs == nil {
						return "none"
					}
					ids := make([]string, 0, len(fs))
					for _, p := range fs {
						ids = append(ids, p.FeatureID().String())
					}
					return strings.Join(ids, ",")
				})
				fmt.Fprintf(&b, " paths%d=%s", i, paths)
			}
		case b6.RelationFeature:
			fmt.Fprintf(&b, " relation[%d]", x.Len())
			for i := 0; i < x.Len(); i++ {
				m := x.Member(i)
				fmt.Fprintf(&b, " %s:%q", m.ID, m.Role)
			}
		case b6.CollectionFeature:
			fmt.Fprintf(&b, " collection")
			it := x.BeginUntyped()
			for {
				ok, err := it.Next()
				if err != nil || !ok {
					break
				}
				fmt.Fprintf(&b, " %v=>%v", it.Key(), it.Value())
			}
		case b6.PhysicalFeature:
			switch f.FeatureID().Type {
			case b6.FeatureTypePoint:
				fmt.Fprintf(&b, " at=%s", e7(x.Point()))
			case b6.FeatureTypePath:
				fmt.Fprintf(&b, " path[%d]", x.GeometryLen())
				for i := 0; i < x.GeometryLen(); i++ {
					ref := "-"
					if r := x.Reference(i); r != nil && r.Source().IsValid() {
						ref = r.Source().String()
					}
					fmt.Fprintf(&b, " %s@%s", ref, catch(func() string { return e7(x.PointAt(i)) }))
				}
			}
		}
		// Feature.References() is not rendered: the compact world does not implement it
		// for areas and relations (it panics "not implemented"); path references, area
		// paths and relation members are rendered above through the typed accessors.
		return b.String()
	})
}

func idsOf(fs b6.Features) []string {
	out := []string{}
	for fs.Next() {
		out = append(out, fs.FeatureID().String())
	}
	return out
}

func sortedJoin(ids []string) string {
	sort.Strings(ids)
	return strings.Join(ids, " ")
}

// Observe records the answers of w to every read query over the probe IDs and
// the given search queries.
func Observe(w b6.World, probes []b6.FeatureID, queries []b6.Query, o ObserveOptions) Observation {
	obs := Observation{}
	for _, id := range probes {
		k := id.String()
		obs["has "+k] = catch(func() string { return fmt.Sprint(w.HasFeatureWithID(id)) })
		obs["feature "+k] = catch(func() string { return FeatureString(w.FindFeatureByID(id)) })
		if id.Type == b6.FeatureTypePoint { // locations are only defined for points
			obs["location "+k] = catch(func() string {
				ll, err := w.FindLocationByID(id)
				if err != nil {
					return "error"
				}
				return fmt.Sprintf("%d,%d", ll.Lat.E7(), ll.Lng.E7())
			})
		}
		if !o.SkipReferences {
			obs["references "+k] = catch(func() string { return sortedJoin(idsOf(w.FindReferences(id))) })
			for _, t := range []b6.FeatureType{b6.FeatureTypePath, b6.FeatureTypeArea, b6.FeatureTypeRelation} {
				t := t
				obs[fmt.Sprintf("references %s typed %s", k, t)] = catch(func() string { return sortedJoin(idsOf(w.FindReferences(id, t))) })
			}
			obs["relations "+k] = catch(func() string {
				rs := w.FindRelationsByFeature(id)
				ids := []string{}
				for rs.Next() {
					ids = append(ids, rs.FeatureID().String())
				}
				return sortedJoin(ids)
			})
			obs["collections "+k] = catch(func() string {
				cs := w.FindCollectionsByFeature(id)
				ids := []string{}
				for cs.Next() {
					ids = append(ids, cs.FeatureID().String())
				}
				return sortedJoin(ids)
			})
			if id.Type == b6.FeatureTypePoint {
				obs["areas "+k] = catch(func() string {
					as := w.FindAreasByPoint(id)
					ids := []string{}
					for as.Next() {
						ids = append(ids, as.FeatureID().String())
					}
					return sortedJoin(ids)
				})
			}
		}
		if !o.SkipTraverse && id.Type == b6.FeatureTypePoint {
			obs["traverse "+k] = catch(func() string {
				ss := w.Traverse(id)
				keys := []string{}
				for ss.Next() {
					s := ss.Segment()
					keys = append(keys, fmt.Sprintf("%s[%d..%d]", s.Feature.FeatureID(), s.First, s.Last))
				}
				return sortedJoin(keys)
			})
		}
	}
	for _, q := range queries {
		q := q
		obs["find "+q.String()] = catch(func() string {
			fs := w.FindFeatures(q)
			parts := []string{}
			for fs.Next() {
				parts = append(parts, fs.FeatureID().String())
			}
			return strings.Join(parts, " ") // in result order
		})
		obs["find-features "+q.String()] = catch(func() string {
			fs := w.FindFeatures(q)
			parts := []string{}
			for fs.Next() {
				parts = append(parts, FeatureString(fs.Feature()))
			}
			sort.Strings(parts)
			return strings.Join(parts, " | ")
		})
	}
	if !o.SkipEach {
		obs["each"] = catch(func() string {
			ids := []string{}
			err := w.EachFeature(func(f b6.Feature, _ int) error {
				ids = append(ids, FeatureString(f))
				return nil
			}, &b6.EachFeatureOptions{Goroutines: 1})
			if err != nil {
				return "error: " + err.Error()
			}
			sort.Strings(ids)
			return strings.Join(ids, " | ")
		})
	}
	return obs
}

// Diff returns a description of the first few differences, or "".
func Diff(a, b Observation, la, lb string) string {
	keys := map[string]bool{}
	for k := range a {
		keys[k] = true
	}
	for k := range b {
		keys[k] = true
	}
	sorted := make([]string, 0, len(keys))
	for k := range keys {
		sorted = append(sorted, k)
	}
	sort.Strings(sorted)
	var out []string
	for _, k := range sorted {
		if a[k] != b[k] {
			out = append(out, fmt.Sprintf("%s:\n    %s: %s\n    %s: %s", k, la, trunc(a[k]), lb, trunc(b[k])))
			if len(out) >= 3 {
				break
			}
		}
	}
	return strings.Join(out, "\n")
}

func trunc(s string) string {
	if len(s) > 1500 {
		return s[:1500] + "..."
	}
	return s
}
