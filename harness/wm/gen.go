package wm

import (
	"math"

	"diagonal.works/b6"
	"pgregory.net/rapid"
)

// GenConfig steers the valid-feature-set generator. The zero value gives
// points, reference paths, path-reference areas and relations in OSM-like
// namespaces with small IDs.
type GenConfig struct {
	MaxPoints       int
	MaxPaths        int
	MaxLoops        int
	MaxAreas        int
	MaxRelations    int
	Namespaces      []string   // candidate namespaces; empty = NamespacePool
	TypedNamespaces [][]string // if set: the candidate namespaces per feature type (point, path, area, relation, collection)
	HighIDs         bool       // ID values from the boundary mixture (>= 2^63, MaxUint64, ...)
	LatLngPaths     bool       // paths made only of lat/lngs
	MixedPaths      bool       // paths mixing references and lat/lngs
	LatLngAreas     bool       // polygons given as lat/lng loops
	MixedAreas      bool       // areas mixing path and lat/lng polygons
	Holes           bool       // lat/lng polygons may have a hole
	AbsentMembers   bool       // relation members that do not exist
	SelfMembers     bool       // relations containing relations (no cycles unless Cycles)
	Collections     int        // max collections
	TagKeys         []string
	TagValues       []string
}

var NamespacePool = []string{
	string(b6.NamespaceOSMNode), string(b6.NamespaceOSMWay), string(b6.NamespaceOSMRelation),
	"diagonal.works/ns/test", "a", "x/y",
}

var DefaultTagKeys = []string{"name", "k0", "k1", "#amenity", "#highway", "#k2", "@wikidata", "#building"}
var DefaultTagValues = []string{"cafe", "path", "yes", "v1", "v2", "two words", ""}

const anchorLat, anchorLng = 515350000, -1250000

type builder struct {
	t    *rapid.T
	cfg  GenConfig
	used map[b6.FeatureID]bool
	locs map[LL]bool
	out  []FeatureS
	ns   [5][]string // candidate namespaces per type
}

func (b *builder) value(label string) uint64 {
	small := uint64(rapid.IntRange(1, 60).Draw(b.t, label+"v"))
	if b.cfg.HighIDs && rapid.IntRange(0, 2).Draw(b.t, label+"high") == 0 {
		// Values whose differences are exactly 2^62 / 2^63 as well as the
		// boundaries themselves: references are delta and zigzag coded.
		switch rapid.IntRange(0, 9).Draw(b.t, label+"class") {
		case 0:
			return 1 << 63
		case 1:
			return 1 << 62
		case 2:
			return small + 1<<62
		case 3:
			return small + 1<<63
		case 4:
			return small + 1<<63 + 1<<62
		case 5:
			return math.MaxUint64 - small + 1
		case 6:
			return math.MaxUint64
		case 7:
			return 1<<uint(rapid.SampledFrom([]int{31, 32, 42, 56}).Draw(b.t, label+"bits")) + small - 1
		default:
			return rapid.Uint64().Draw(b.t, label+"any")
		}
	}
	return small
}

func (b *builder) newID(t int, label string) FID {
	for try := 0; ; try++ {
		id := FID{T: t, NS: rapid.SampledFrom(b.ns[t]).Draw(b.t, label+"ns"), V: b.value(label)}
		if try > 20 {
			id.V = uint64(1000 + len(b.used))
		}
		if !b.used[id.ID()] {
			b.used[id.ID()] = true
			return id
		}
	}
}

func (b *builder) tags(label string) []TagS {
	keys := b.cfg.TagKeys
	if len(keys) == 0 {
		keys = DefaultTagKeys
	}
	values := b.cfg.TagValues
	if len(values) == 0 {
		values = DefaultTagValues
	}
	n := rapid.IntRange(0, 3).Draw(b.t, label+"ntags")
	ks := rapid.SliceOfNDistinct(rapid.SampledFrom(keys), n, n, rapid.ID[string]).Draw(b.t, label+"keys")
	out := make([]TagS, 0, n)
	for _, k := range ks {
		out = append(out, TagS{k, rapid.SampledFrom(values).Draw(b.t, label+"val")})
	}
	return out
}

func (b *builder) freshLL(lat, lng int32) LL {
	ll := LL{lat, lng}
	for b.locs[ll] {
		ll.Lat += 37
		ll.Lng += 53
	}
	b.locs[ll] = true
	return ll
}

func (b *builder) point(label string, ll LL, withTags bool) FID {
	id := b.newID(0, label)
	f := FeatureS{ID: id, Point: &ll}
	if withTags {
		f.Tags = b.tags(label)
	}
	b.out = append(b.out, f)
	return id
}

// loop returns k counter-clockwise vertices around a generated centre.
func (b *builder) loop(label string, k int, cx, cy int32, r float64) []LL {
	out := make([]LL, 0, k)
	for j := 0; j < k; j++ {
		jitter := float64(rapid.IntRange(-20, 20).Draw(b.t, label+"jitter")) / 100
		a := 2 * math.Pi * (float64(j) + jitter) / float64(k)
		rr := r * (1 + float64(rapid.IntRange(-20, 20).Draw(b.t, label+"rjitter"))/100)
		out = append(out, b.freshLL(cy+int32(rr*math.Sin(a)), cx+int32(rr*math.Cos(a))))
	}
	return out
}

// Set is a generated valid feature set.
type Set struct {
	Features []FeatureS `json:"features"`
}

// GenSet draws a feature set whose features all satisfy ingest.ValidateFeature
// by construction.
func GenSet(t *rapid.T, cfg GenConfig) Set {
	b := &builder{t: t, cfg: cfg, used: map[b6.FeatureID]bool{}, locs: map[LL]bool{}}
	pool := cfg.Namespaces
	if len(pool) == 0 {
		pool = NamespacePool
	}
	for ty := range b.ns {
		if ty < len(cfg.TypedNamespaces) && len(cfg.TypedNamespaces[ty]) > 0 {
			b.ns[ty] = cfg.TypedNamespaces[ty]
			continue
		}
		n := rapid.IntRange(1, 2).Draw(t, "nns")
		b.ns[ty] = rapid.SliceOfNDistinct(rapid.SampledFrom(pool), n, n, rapid.ID[string]).Draw(t, "nspool")
	}
	if cfg.MaxPoints < 2 {
		cfg.MaxPoints = 8
	}
	// free-standing points
	np := rapid.IntRange(2, cfg.MaxPoints).Draw(t, "npoints")
	var points []FID
	for i := 0; i < np; i++ {
		ll := b.freshLL(anchorLat+int32(rapid.IntRange(-30000, 30000).Draw(t, "dlat")), anchorLng+int32(rapid.IntRange(-30000, 30000).Draw(t, "dlng")))
		points = append(points, b.point("p", ll, rapid.IntRange(0, 2).Draw(t, "ptagged") > 0))
	}
	// open paths
	npaths := rapid.IntRange(0, cfg.MaxPaths).Draw(t, "npaths")
	var paths []FID
	for i := 0; i < npaths; i++ {
		n := rapid.IntRange(2, 5).Draw(t, "pathlen")
		mode := 0 // refs
		if cfg.LatLngPaths && rapid.IntRange(0, 3).Draw(t, "llpath") == 0 {
			mode = 1
		} else if cfg.MixedPaths && rapid.IntRange(0, 2).Draw(t, "mixedpath") == 0 {
			mode = 2
		}
		var els []PathEl
		last := -1
		for j := 0; j < n; j++ {
			useRef := mode == 0 || mode == 2 && rapid.Bool().Draw(t, "elref")
			if useRef {
				k := rapid.IntRange(0, len(points)-1).Draw(t, "pointidx")
				if k == last {
					k = (k + 1) % len(points)
				}
				last = k
				p := points[k]
				els = append(els, PathEl{Ref: &p})
			} else {
				ll := b.freshLL(anchorLat+int32(rapid.IntRange(-30000, 30000).Draw(t, "dlat")), anchorLng+int32(rapid.IntRange(-30000, 30000).Draw(t, "dlng")))
				els = append(els, PathEl{LL: &ll})
				last = -1
			}
		}
		// an open path must not accidentally be closed
		if els[0].Ref != nil && els[len(els)-1].Ref != nil && *els[0].Ref == *els[len(els)-1].Ref {
			els = els[:len(els)-1]
			if len(els) < 2 {
				continue
			}
		}
		id := b.newID(1, "path")
		paths = append(paths, id)
		b.out = append(b.out, FeatureS{ID: id, Tags: b.tags("path"), Path: els})
	}
	// closed paths over their own points
	nloops := rapid.IntRange(0, cfg.MaxLoops).Draw(t, "nloops")
	var loops []FID
	for i := 0; i < nloops; i++ {
		k := rapid.IntRange(3, 6).Draw(t, "loopk")
		cx := anchorLng + int32(rapid.IntRange(-200000, 200000).Draw(t, "cx"))
		cy := anchorLat + int32(rapid.IntRange(-200000, 200000).Draw(t, "cy"))
		vs := b.loop("loop", k, cx, cy, float64(rapid.IntRange(3000, 20000).Draw(t, "r")))
		var els []PathEl
		for j, v := range vs {
			if cfg.MixedPaths && j > 0 && rapid.IntRange(0, 4).Draw(t, "loopll") == 0 {
				v := v
				els = append(els, PathEl{LL: &v})
				continue
			}
			var p FID
			if j > 0 && len(points) > 0 && false {
				p = points[0]
			} else {
				p = b.point("lp", v, rapid.IntRange(0, 3).Draw(t, "lptagged") == 0)
			}
			els = append(els, PathEl{Ref: &p})
		}
		first := *els[0].Ref
		els = append(els, PathEl{Ref: &first})
		id := b.newID(1, "loop")
		loops = append(loops, id)
		b.out = append(b.out, FeatureS{ID: id, Tags: b.tags("loop"), Path: els})
	}
	// areas
	nareas := rapid.IntRange(0, cfg.MaxAreas).Draw(t, "nareas")
	var areas []FID
	for i := 0; i < nareas; i++ {
		npolys := rapid.IntRange(1, 3).Draw(t, "npolys")
		var polys []PolyS
		for j := 0; j < npolys; j++ {
			usePath := len(loops) > 0 && !(cfg.LatLngAreas && rapid.IntRange(0, 2).Draw(t, "llpoly") == 0)
			if usePath {
				polys = append(polys, PolyS{Paths: []FID{rapid.SampledFrom(loops).Draw(t, "looppath")}})
			} else if cfg.LatLngAreas {
				k := rapid.IntRange(3, 6).Draw(t, "polyk")
				cx := anchorLng + int32(rapid.IntRange(-200000, 200000).Draw(t, "pcx"))
				cy := anchorLat + int32(rapid.IntRange(-200000, 200000).Draw(t, "pcy"))
				r := float64(rapid.IntRange(6000, 20000).Draw(t, "pr"))
				p := PolyS{Loops: [][]LL{b.loop("poly", k, cx, cy, r)}}
				if cfg.Holes && rapid.IntRange(0, 2).Draw(t, "hole") == 0 {
					p.Loops = append(p.Loops, b.loop("hole", rapid.IntRange(3, 4).Draw(t, "holek"), cx, cy, r/4))
				}
				polys = append(polys, p)
			}
		}
		if len(polys) == 0 {
			continue
		}
		if !cfg.MixedAreas { // all polygons of one kind
			kind := len(polys[0].Paths) > 0
			filtered := polys[:0]
			for _, p := range polys {
				if (len(p.Paths) > 0) == kind {
					filtered = append(filtered, p)
				}
			}
			polys = filtered
		}
		id := b.newID(2, "area")
		areas = append(areas, id)
		b.out = append(b.out, FeatureS{ID: id, Tags: b.tags("area"), Polys: polys})
	}
	// relations
	nrel := rapid.IntRange(0, cfg.MaxRelations).Draw(t, "nrelations")
	var relations []FID
	for i := 0; i < nrel; i++ {
		var candidates []FID
		candidates = append(candidates, points...)
		candidates = append(candidates, paths...)
		candidates = append(candidates, loops...)
		candidates = append(candidates, areas...)
		if cfg.SelfMembers {
			candidates = append(candidates, relations...)
		}
		n := rapid.IntRange(0, 4).Draw(t, "nmembers")
		var members []MemberS
		for j := 0; j < n; j++ {
			var m FID
			if cfg.AbsentMembers && rapid.IntRange(0, 5).Draw(t, "absent") == 0 {
				m = FID{T: rapid.IntRange(0, 3).Draw(t, "absentT"), NS: rapid.SampledFrom(pool).Draw(t, "absentNS"), V: uint64(rapid.IntRange(900, 905).Draw(t, "absentV"))}
			} else {
				m = rapid.SampledFrom(candidates).Draw(t, "member")
			}
			members = append(members, MemberS{ID: m, Role: rapid.SampledFrom([]string{"", "outer", "inner", "stop", "via"}).Draw(t, "role")})
		}
		id := b.newID(3, "relation")
		relations = append(relations, id)
		b.out = append(b.out, FeatureS{ID: id, Tags: b.tags("relation"), Members: members})
	}
	// collections
	if cfg.Collections > 0 {
		nc := rapid.IntRange(0, cfg.Collections).Draw(t, "ncollections")
		for i := 0; i < nc; i++ {
			var all []FID
			all = append(all, points...)
			all = append(all, paths...)
			all = append(all, areas...)
			all = append(all, relations...)
			n := rapid.IntRange(0, 4).Draw(t, "ncoll")
			f := FeatureS{ID: b.newID(4, "collection"), Tags: b.tags("collection")}
			for j := 0; j < n; j++ {
				m := rapid.SampledFrom(all).Draw(t, "collkey")
				v := rapid.IntRange(0, 9).Draw(t, "collval")
				f.Keys = append(f.Keys, CollEl{ID: &m})
				f.Values = append(f.Values, CollEl{Int: &v})
			}
			b.out = append(b.out, f)
		}
	}
	return Set{Features: b.out}
}

// Probes returns every ID the set mentions (features, path points, area paths,
// members) plus a few absent ones and derived ones.
func (s Set) Probes() []b6.FeatureID {
	seen := map[b6.FeatureID]bool{}
	var out []b6.FeatureID
	add := func(id b6.FeatureID) {
		if !seen[id] {
			seen[id] = true
			out = append(out, id)
		}
	}
	for _, f := range s.Features {
		add(f.ID.ID())
		for _, e := range f.Path {
			if e.Ref != nil {
				add(e.Ref.ID())
			}
		}
		for _, p := range f.Polys {
			for _, id := range p.Paths {
				add(id.ID())
			}
		}
		for _, m := range f.Members {
			add(m.ID.ID())
		}
		// same value, other types and namespaces
		id := f.ID.ID()
		for _, t := range []b6.FeatureType{b6.FeatureTypePoint, b6.FeatureTypePath, b6.FeatureTypeArea, b6.FeatureTypeRelation} {
			add(b6.FeatureID{Type: t, Namespace: id.Namespace, Value: id.Value})
		}
		add(b6.FeatureID{Type: id.Type, Namespace: id.Namespace, Value: id.Value + 1})
		add(b6.FeatureID{Type: id.Type, Namespace: id.Namespace, Value: id.Value &^ (1 << 63)})
	}
	add(b6.FeatureID{Type: b6.FeatureTypePoint, Namespace: "absent/namespace", Value: 1})
	return out
}
