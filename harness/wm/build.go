package wm

import (
	"fmt"

	"diagonal.works/b6"
	"diagonal.works/b6/ingest"
	"diagonal.works/b6/ingest/compact"
)

func Features(fs []FeatureS) []ingest.Feature {
	out := make([]ingest.Feature, 0, len(fs))
	for _, f := range fs {
		out = append(out, ToIngest(f))
	}
	return out
}

// BuildBasic builds the read-only in-memory world, rejecting invalid features.
func BuildBasic(fs []FeatureS, cores int, failInvalid bool) (b6.World, error) {
	b := ingest.NewBasicWorldBuilder(&ingest.BuildOptions{Cores: cores})
	for _, f := range Features(fs) {
		b.AddFeature(f)
	}
	return b.Finish(&ingest.BuildOptions{Cores: cores, FailInvalidFeatures: failInvalid, FailClockwisePaths: failInvalid})
}

// BuildMutable adds the features one by one to a BasicMutableWorld.
func BuildMutable(fs []FeatureS) (*ingest.BasicMutableWorld, error) {
	w := ingest.NewBasicMutableWorld()
	for _, f := range SortForInsertion(fs) {
		if err := w.AddFeature(ToIngest(f)); err != nil {
			return nil, fmt.Errorf("AddFeature(%s): %w", f.ID.ID(), err)
		}
	}
	return w, nil
}

// BuildCompactData builds a compact index in memory.
func BuildCompactData(fs []FeatureS, goroutines int) ([]byte, error) {
	source := ingest.MemoryFeatureSource(Features(fs))
	return compact.BuildInMemory(source, &compact.Options{Goroutines: goroutines, PointsScratchOutputType: compact.OutputTypeMemory})
}

func BuildCompact(fs []FeatureS, goroutines int) (*compact.World, error) {
	data, err := BuildCompactData(fs, goroutines)
	if err != nil {
		return nil, err
	}
	return compact.NewWorldFromData(data)
}
