package wm

import (
	"context"
	"math"

	"diagonal.works/b6"
	"diagonal.works/b6/ingest"
	"diagonal.works/b6/ingest/compact"
	"diagonal.works/b6/osm"
	"github.com/golang/geo/s1"
	"github.com/golang/geo/s2"
	"pgregory.net/rapid"
)

type OSMNode struct {
	ID   int64  `json:"id"`
	LL   LL     `json:"ll"`
	Tags []TagS `json:"tags,omitempty"`
}

type OSMWay struct {
	ID    int64   `json:"id"`
	Nodes []int64 `json:"nodes"`
	Tags  []TagS  `json:"tags,omitempty"`
}

type OSMMember struct {
	Type int    `json:"type"` // 0 node, 1 way, 2 relation
	ID   int64  `json:"id"`
	Role string `json:"role,omitempty"`
}

type OSMRelation struct {
	ID      int64       `json:"id"`
	Members []OSMMember `json:"members"`
	Tags    []TagS      `json:"tags,omitempty"`
}

type OSMData struct {
	Nodes     []OSMNode     `json:"nodes"`
	Ways      []OSMWay      `json:"ways"`
	Relations []OSMRelation `json:"relations"`
}

func osmTags(ts []TagS) osm.Tags {
	out := make(osm.Tags, 0, len(ts))
	for _, t := range ts {
		out = append(out, osm.Tag{Key: t.K, Value: t.V})
	}
	return out
}

func (d OSMData) ToOSM() ([]osm.Node, []osm.Way, []osm.Relation) {
	nodes := make([]osm.Node, 0, len(d.Nodes))
	for _, n := range d.Nodes {
		nodes = append(nodes, osm.Node{ID: osm.NodeID(n.ID), Location: osm.LatLng{Lat: float64(n.LL.Lat) / 1e7, Lng: float64(n.LL.Lng) / 1e7}, Tags: osmTags(n.Tags)})
	}
	ways := make([]osm.Way, 0, len(d.Ways))
	for _, w := range d.Ways {
		ns := make([]osm.NodeID, 0, len(w.Nodes))
		for _, n := range w.Nodes {
			ns = append(ns, osm.NodeID(n))
		}
		ways = append(ways, osm.Way{ID: osm.WayID(w.ID), Nodes: ns, Tags: osmTags(w.Tags)})
	}
	relations := make([]osm.Relation, 0, len(d.Relations))
	for _, r := range d.Relations {
		ms := make([]osm.Member, 0, len(r.Members))
		for _, m := range r.Members {
			ms = append(ms, osm.Member{Type: osm.ElementType(m.Type), ID: osm.AnyID(m.ID), Role: m.Role})
		}
		relations = append(relations, osm.Relation{ID: osm.RelationID(r.ID), Members: ms, Tags: osmTags(r.Tags)})
	}
	return nodes, ways, relations
}

func (d OSMData) Valid() bool {
	for _, w := range d.Ways {
		if len(w.Nodes) == 0 { // isWayClosed indexes Nodes[0]
			return false
		}
	}
	return true
}

// BuildBasicFromOSM builds the in-memory world with cores goroutines.
func (d OSMData) BuildBasic(cores int) (b6.World, error) {
	n, w, r := d.ToOSM()
	return ingest.BuildWorldFromOSM(n, w, r, &ingest.BuildOptions{Cores: cores})
}

// BuildCompact builds a compact index from the same OSM source and loads it.
func (d OSMData) BuildCompact(goroutines int) (*compact.World, error) {
	n, w, r := d.ToOSM()
	osmSource := ingest.MemoryOSMSource{Nodes: n, Ways: w, Relations: r}
	source, err := ingest.NewFeatureSourceFromPBF(&osmSource, &ingest.BuildOptions{Cores: goroutines}, context.Background())
	if err != nil {
		return nil, err
	}
	data, err := compact.BuildInMemory(source, &compact.Options{Goroutines: goroutines, PointsScratchOutputType: compact.OutputTypeMemory})
	if err != nil {
		return nil, err
	}
	return compact.NewWorldFromData(data)
}

type OSMGenConfig struct {
	MaxNodes      int
	MaxWays       int
	MaxClosed     int
	MaxRelations  int
	Clockwise     bool // some closed ways are drawn clockwise
	MissingNodes  bool
	Multipolygons bool
	Network       bool // highway tags on most ways, oneway, weights
	GeometryKeys  bool // some nodes carry an OSM tag keyed "point" and some ways one keyed "path" (they collide with the geometry tags)
	AllKeys       bool // tag keys are drawn from every key of the searchable mapping and lookalikes of them, not only the usual eight
	MixedMembers  bool // multipolygons also list nodes and relations (labels, admin centres, members with empty or outer roles)
}

var osmKeys = []string{"name", "ref", "amenity", "highway", "building", "wikidata", "landuse", "note"}

// every key of the documented mapping, and keys that resemble them but are not in it
var osmKeysAll = append([]string{"amenity", "barrier", "boundary", "bridge", "building", "highway", "landuse", "leisure", "natural", "network",
	"place", "railway", "route", "shop", "tourism", "water", "waterway", "fhrs:id", "wikidata", "wikipedia",
	"fhrs:authority", "addr:street", "name:en", "disused:amenity", "Amenity", "shop:type", "wikidata:brand", "water_source"}, "name", "ref", "note")

var osmTagKeys = osmKeys

var osmValues = []string{"cafe", "path", "yes", "residential", "Q42", "primary", "x y"}

func genOSMTags(t *rapid.T, label string, max int) []TagS {
	n := rapid.IntRange(0, max).Draw(t, label+"n")
	ks := rapid.SliceOfNDistinct(rapid.SampledFrom(osmTagKeys), n, n, rapid.ID[string]).Draw(t, label+"keys")
	out := make([]TagS, 0, n)
	for _, k := range ks {
		out = append(out, TagS{k, rapid.SampledFrom(osmValues).Draw(t, label+"v")})
	}
	return out
}

// GenOSM draws OSM-shaped data with robustly valid geometry: every pair of
// vertices of a closed way is far more than one E7 step apart.
func GenOSM(t *rapid.T, cfg OSMGenConfig) OSMData {
	var d OSMData
	osmTagKeys = osmKeys
	if cfg.AllKeys {
		osmTagKeys = osmKeysAll
	}
	locs := map[LL]bool{}
	fresh := func(lat, lng int32) LL {
		ll := LL{lat, lng}
		for locs[ll] {
			ll.Lat += 41
			ll.Lng += 59
		}
		locs[ll] = true
		return ll
	}
	nextNode := int64(1)
	idStep := func(label string) int64 { return int64(rapid.IntRange(1, 3).Draw(t, label)) }
	if cfg.MaxNodes < 2 {
		cfg.MaxNodes = 8
	}
	nn := rapid.IntRange(2, cfg.MaxNodes).Draw(t, "nnodes")
	var free []int64
	for i := 0; i < nn; i++ {
		nextNode += idStep("nodeid")
		ll := fresh(anchorLat+int32(rapid.IntRange(-30000, 30000).Draw(t, "dlat")), anchorLng+int32(rapid.IntRange(-30000, 30000).Draw(t, "dlng")))
		var tags []TagS
		if rapid.IntRange(0, 2).Draw(t, "nodetagged") == 0 {
			tags = genOSMTags(t, "nodetags", 2)
		}
		if cfg.GeometryKeys && rapid.IntRange(0, 5).Draw(t, "pointkey") == 0 {
			tags = append(dropKey(tags, "point"), TagS{"point", "yes"})
		}
		d.Nodes = append(d.Nodes, OSMNode{ID: nextNode, LL: ll, Tags: tags})
		free = append(free, nextNode)
	}
	nextWay := int64(1)
	nw := rapid.IntRange(0, cfg.MaxWays).Draw(t, "nways")
	var openWays, closedWays []int64
	for i := 0; i < nw; i++ {
		nextWay += idStep("wayid")
		n := rapid.IntRange(2, 5).Draw(t, "waylen")
		var nodes []int64
		for j := 0; j < n; j++ {
			k := rapid.SampledFrom(free).Draw(t, "waynode")
			if len(nodes) > 0 && nodes[len(nodes)-1] == k {
				continue
			}
			if cfg.MissingNodes && rapid.IntRange(0, 14).Draw(t, "missing") == 0 {
				k = 9000 + int64(rapid.IntRange(0, 3).Draw(t, "missingid"))
			}
			nodes = append(nodes, k)
		}
		if len(nodes) < 2 || nodes[0] == nodes[len(nodes)-1] {
			continue
		}
		tags := genOSMTags(t, "waytags", 2)
		if cfg.Network && rapid.IntRange(0, 3).Draw(t, "ishighway") > 0 {
			tags = append([]TagS{{"highway", rapid.SampledFrom([]string{"residential", "footway", "primary", "path"}).Draw(t, "hw")}}, dropKey(tags, "highway")...)
			if rapid.IntRange(0, 4).Draw(t, "oneway") == 0 {
				tags = append(tags, TagS{"oneway", "yes"})
			}
		}
		if cfg.GeometryKeys && rapid.IntRange(0, 5).Draw(t, "pathkey") == 0 {
			tags = append(dropKey(tags, "path"), TagS{"path", "yes"})
		}
		d.Ways = append(d.Ways, OSMWay{ID: nextWay, Nodes: nodes, Tags: tags})
		openWays = append(openWays, nextWay)
	}
	nc := rapid.IntRange(0, cfg.MaxClosed).Draw(t, "nclosed")
	for i := 0; i < nc; i++ {
		nextWay += idStep("wayid")
		k := rapid.IntRange(3, 6).Draw(t, "loopk")
		cx := anchorLng + int32(rapid.IntRange(-200000, 200000).Draw(t, "cx"))
		cy := anchorLat + int32(rapid.IntRange(-200000, 200000).Draw(t, "cy"))
		r := float64(rapid.IntRange(3000, 20000).Draw(t, "r"))
		var nodes []int64
		for j := 0; j < k; j++ {
			jitter := float64(rapid.IntRange(-20, 20).Draw(t, "jitter")) / 100
			a := 2 * math.Pi * (float64(j) + jitter) / float64(k)
			nextNode += idStep("nodeid")
			var tags []TagS
			if rapid.IntRange(0, 5).Draw(t, "loopnodetagged") == 0 {
				tags = genOSMTags(t, "loopnodetags", 1)
			}
			d.Nodes = append(d.Nodes, OSMNode{ID: nextNode, LL: fresh(cy+int32(r*math.Sin(a)), cx+int32(r*math.Cos(a))), Tags: tags})
			nodes = append(nodes, nextNode)
		}
		if cfg.Clockwise && rapid.IntRange(0, 2).Draw(t, "cw") == 0 {
			for a, b := 0, len(nodes)-1; a < b; a, b = a+1, b-1 {
				nodes[a], nodes[b] = nodes[b], nodes[a]
			}
		}
		nodes = append(nodes, nodes[0])
		d.Ways = append(d.Ways, OSMWay{ID: nextWay, Nodes: nodes, Tags: genOSMTags(t, "closedtags", 2)})
		closedWays = append(closedWays, nextWay)
	}
	nextRel := int64(1)
	nr := rapid.IntRange(0, cfg.MaxRelations).Draw(t, "nrelations")
	var rels []int64
	for i := 0; i < nr; i++ {
		nextRel += idStep("relid")
		if cfg.Multipolygons && len(closedWays) > 0 && rapid.IntRange(0, 2).Draw(t, "ismp") == 0 {
			n := rapid.IntRange(1, 3).Draw(t, "mpmembers")
			var ms []OSMMember
			for j := 0; j < n; j++ {
				role := "outer"
				if j > 0 && rapid.Bool().Draw(t, "inner") {
					role = "inner"
				}
				w := rapid.SampledFrom(closedWays).Draw(t, "mpway")
				if rapid.IntRange(0, 9).Draw(t, "mpopen") == 0 && len(openWays) > 0 {
					w = rapid.SampledFrom(openWays).Draw(t, "mpopenway")
				}
				if cfg.MixedMembers && rapid.IntRange(0, 2).Draw(t, "mpother") == 0 {
					ms = append(ms, OSMMember{Type: rapid.SampledFrom([]int{0, 0, 2}).Draw(t, "mpothertype"), ID: rapid.SampledFrom(free).Draw(t, "mpotherid"),
						Role: rapid.SampledFrom([]string{"", "outer", "label", "admin_centre"}).Draw(t, "mpotherrole")})
				}
				ms = append(ms, OSMMember{Type: 1, ID: w, Role: role})
			}
			tags := append([]TagS{{"type", "multipolygon"}}, dropKey(genOSMTags(t, "mptags", 2), "type")...)
			d.Relations = append(d.Relations, OSMRelation{ID: nextRel, Members: ms, Tags: tags})
		} else {
			n := rapid.IntRange(0, 4).Draw(t, "nmembers")
			var ms []OSMMember
			for j := 0; j < n; j++ {
				switch rapid.IntRange(0, 5).Draw(t, "membertype") {
				case 0, 1:
					ms = append(ms, OSMMember{Type: 0, ID: rapid.SampledFrom(free).Draw(t, "mnode"), Role: "stop"})
				case 2:
					if len(openWays) > 0 {
						ms = append(ms, OSMMember{Type: 1, ID: rapid.SampledFrom(openWays).Draw(t, "mway"), Role: ""})
					}
				case 3:
					if len(closedWays) > 0 {
						ms = append(ms, OSMMember{Type: 1, ID: rapid.SampledFrom(closedWays).Draw(t, "mclosed"), Role: "platform"})
					}
				case 4:
					if len(rels) > 0 {
						ms = append(ms, OSMMember{Type: 2, ID: rapid.SampledFrom(rels).Draw(t, "mrel"), Role: ""})
					}
				default:
					ms = append(ms, OSMMember{Type: rapid.IntRange(0, 2).Draw(t, "absenttype"), ID: 7000 + int64(rapid.IntRange(0, 3).Draw(t, "absentid")), Role: "via"})
				}
			}
			tags := append([]TagS{{"type", rapid.SampledFrom([]string{"route", "site", "restriction"}).Draw(t, "reltype")}}, dropKey(genOSMTags(t, "reltags", 2), "type")...)
			d.Relations = append(d.Relations, OSMRelation{ID: nextRel, Members: ms, Tags: tags})
		}
		rels = append(rels, nextRel)
	}
	return d
}

func dropKey(ts []TagS, key string) []TagS {
	out := ts[:0:0]
	for _, t := range ts {
		if t.K != key {
			out = append(out, t)
		}
	}
	return out
}

// Probes lists the IDs the data mentions, as every feature type they could
// have become, plus absent ones.
func (d OSMData) Probes() []b6.FeatureID {
	seen := map[b6.FeatureID]bool{}
	var out []b6.FeatureID
	add := func(id b6.FeatureID) {
		if !seen[id] {
			seen[id] = true
			out = append(out, id)
		}
	}
	for _, n := range d.Nodes {
		add(ingest.FromOSMNodeID(osm.NodeID(n.ID)))
	}
	for _, w := range d.Ways {
		add(ingest.FromOSMWayID(osm.WayID(w.ID)))
		add(ingest.AreaIDFromOSMWayID(osm.WayID(w.ID)).FeatureID())
		for _, n := range w.Nodes {
			add(ingest.FromOSMNodeID(osm.NodeID(n)))
		}
	}
	for _, r := range d.Relations {
		add(ingest.FromOSMRelationID(osm.RelationID(r.ID)).FeatureID())
		add(ingest.AreaIDFromOSMRelationID(osm.RelationID(r.ID)).FeatureID())
		for _, m := range r.Members {
			switch m.Type {
			case 0:
				add(ingest.FromOSMNodeID(osm.NodeID(m.ID)))
			case 1:
				add(ingest.FromOSMWayID(osm.WayID(m.ID)))
				add(ingest.AreaIDFromOSMWayID(osm.WayID(m.ID)).FeatureID())
			case 2:
				add(ingest.FromOSMRelationID(osm.RelationID(m.ID)).FeatureID())
				add(ingest.AreaIDFromOSMRelationID(osm.RelationID(m.ID)).FeatureID())
			}
		}
	}
	add(ingest.FromOSMNodeID(424242))
	add(ingest.FromOSMWayID(424242))
	return out
}

// Queries returns tag and spatial queries over what the data mentions.
func (d OSMData) Queries() []b6.Query {
	qs := []b6.Query{b6.All{}}
	seenKey := map[string]bool{}
	seenTag := map[string]bool{}
	addTags := func(ts []TagS) {
		for _, t := range ts {
			k := ingest.KeyForOSMKey(t.K)
			if !seenKey[k] {
				seenKey[k] = true
				qs = append(qs, b6.Keyed{Key: k})
				for _, ty := range []b6.FeatureType{b6.FeatureTypePoint, b6.FeatureTypePath, b6.FeatureTypeArea, b6.FeatureTypeRelation} {
					qs = append(qs, b6.Typed{Type: ty, Query: b6.Keyed{Key: k}})
				}
			}
			if kv := k + "=" + t.V; !seenTag[kv] {
				seenTag[kv] = true
				qs = append(qs, b6.Tagged{Key: k, Value: b6.NewStringExpression(t.V)})
			}
		}
	}
	for _, n := range d.Nodes {
		addTags(n.Tags)
	}
	for _, w := range d.Ways {
		addTags(w.Tags)
	}
	for _, r := range d.Relations {
		addTags(r.Tags)
	}
	qs = append(qs, b6.Union{b6.Keyed{Key: "#highway"}, b6.Keyed{Key: "#building"}},
		b6.Intersection{b6.Keyed{Key: "#highway"}, b6.Keyed{Key: "#amenity"}},
		b6.Typed{Type: b6.FeatureTypeArea, Query: b6.All{}}, b6.Typed{Type: b6.FeatureTypePath, Query: b6.All{}})
	return qs
}

// SpatialQueries returns cap and cell queries around the given locations.
func SpatialQueries(lls []LL) []b6.Query {
	var qs []b6.Query
	for i, ll := range lls {
		if i >= 4 {
			break
		}
		p := ll.Point()
		qs = append(qs, b6.NewIntersectsCap(s2.CapFromCenterAngle(p, s1.Angle(20.0/6371000.0))))
		qs = append(qs, b6.NewIntersectsCap(s2.CapFromCenterAngle(p, s1.Angle(3000.0/6371000.0))))
		qs = append(qs, b6.NewIntersectsCellID(s2.CellIDFromLatLng(ll.S2()).Parent(17)))
		qs = append(qs, b6.NewIntersectsCellID(s2.CellIDFromLatLng(ll.S2()).Parent(12)))
		qs = append(qs, b6.Typed{Type: b6.FeatureTypeArea, Query: b6.NewIntersectsCap(s2.CapFromCenterAngle(p, s1.Angle(3000.0/6371000.0)))})
	}
	return qs
}
