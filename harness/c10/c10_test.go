// C10: bit-packed identifiers decode to what was packed.
package c10

import (
	"fmt"
	"math"
	"strings"
	"testing"

	"diagonal.works/b6"
	"diagonal.works/b6/encoding"
	"diagonal.works/b6/ingest"
	"diagonal.works/b6/ingest/compact"
	"diagonal.works/b6/renderer"
	"github.com/golang/geo/s1"
	"github.com/golang/geo/s2"
	"pgregory.net/rapid"
	"verif/gen"
	"verif/vlib"
)

// One case type for all packings: Kind selects the function pair.
type Case struct {
	Kind string `json:"kind"`
	A    uint64 `json:"a,string,omitempty"`
	B    uint64 `json:"b,string,omitempty"`
	C    uint64 `json:"c,string,omitempty"`
	D    uint64 `json:"d,string,omitempty"`
	S    string `json:"s,omitempty"`
}

func topByte(v uint64, bits uint) bool { // a bit set in the top byte of a field of the given width
	if bits <= 8 {
		return v != 0
	}
	return v>>(bits-8) != 0
}

func check(c Case) vlib.Outcome {
	switch c.Kind {
	case "zigzag64":
		v := int64(c.A)
		if got := encoding.ZigzagDecode(encoding.ZigzagEncode(v)); got != v {
			return vlib.Fail("encoding.ZigzagDecode(ZigzagEncode(%d)) = %d", v, got)
		}
		if got := encoding.ZigzagEncode(encoding.ZigzagDecode(c.A)); got != c.A {
			return vlib.Fail("encoding.ZigzagEncode(ZigzagDecode(%d)) = %d", c.A, got)
		}
		// small magnitudes must map to small codes (that is the point of zigzag)
		if v > -64 && v < 64 && encoding.ZigzagEncode(v) >= 128 {
			return vlib.Fail("ZigzagEncode(%d) = %d does not fit one varint byte", v, encoding.ZigzagEncode(v))
		}
		return vlib.Outcome{NonTrivial: topByte(c.A, 64)}
	case "zigzag32":
		v := int(int32(uint32(c.A)))
		if got := renderer.VerifZigzagDecode(renderer.VerifZigzagEncode(v)); got != v {
			return vlib.Fail("renderer zigzagDecode(zigzagEncode(%d)) = %d", v, got)
		}
		u := uint32(c.A)
		if got := renderer.VerifZigzagEncode(renderer.VerifZigzagDecode(u)); got != u {
			return vlib.Fail("renderer zigzagEncode(zigzagDecode(%d)) = %d", u, got)
		}
		// agreement with the MVT definition for the magnitudes a tile uses
		if v >= 0 && renderer.VerifZigzagEncode(v) != uint32(v)*2 || v < 0 && renderer.VerifZigzagEncode(v) != uint32(-(v+1))*2+1 {
			return vlib.Fail("renderer zigzagEncode(%d) = %d is not the MVT zigzag code", v, renderer.VerifZigzagEncode(v))
		}
		return vlib.Outcome{NonTrivial: topByte(uint64(uint32(c.A)), 32)}
	case "typens":
		t, ns := b6.FeatureType(c.A), compact.Namespace(c.B)
		if c.A > 6 || c.B >= 1<<13 {
			return vlib.Outcome{Skip: true}
		}
		gt, gns := compact.CombineTypeAndNamespace(t, ns).Split()
		if gt != t || gns != ns {
			return vlib.Fail("CombineTypeAndNamespace(%v,%d).Split() = (%v,%d)", t, ns, gt, gns)
		}
		return vlib.Outcome{NonTrivial: c.A >= 4 || topByte(c.B, 13)}
	case "valuetype":
		if c.A > 3 || c.B >= 1<<62 {
			return vlib.Outcome{Skip: true}
		}
		e := compact.EncodeValueType(b6.ExpressionType(c.A), c.B)
		var buf [10]byte
		n := putUvarint(buf[:], e)
		v, m := compact.DecodeValue(buf[:])
		if v != c.B || n != m || b6.ExpressionType(e&3) != b6.ExpressionType(c.A) {
			return vlib.Fail("EncodeValueType(%d,%d) = %d decodes to value %d type %d (wrote %d bytes, read %d)", c.A, c.B, e, v, e&3, n, m)
		}
		return vlib.Outcome{NonTrivial: topByte(c.B, 62)}
	case "valuetype-overflow":
		// values that do not fit must be refused loudly, never silently truncated
		if c.A > 3 || c.B < 1<<62 {
			return vlib.Outcome{Skip: true}
		}
		panicked := false
		var e uint64
		func() {
			defer func() {
				if recover() != nil {
					panicked = true
				}
			}()
			e = compact.EncodeValueType(b6.ExpressionType(c.A), c.B)
		}()
		if !panicked && e>>2 != c.B {
			return vlib.Fail("EncodeValueType(%d,%d) silently produced %d", c.A, c.B, e)
		}
		return vlib.Outcome{NonTrivial: true}
	case "geometry":
		enc := compact.GeometryEncoding(c.A)
		if c.A > 2 || c.B >= 1<<40 {
			return vlib.Outcome{Skip: true}
		}
		encs := []compact.GeometryEncoding{compact.GeometryEncodingReferences, compact.GeometryEncodingLatLngs, compact.GeometryEncodingMixed}
		enc = encs[c.A]
		v := compact.EncodeGeometry(enc, int(c.B))
		if compact.DecodeGeometryEncoding(v) != enc || compact.DecodeGeometryLen(v) != int(c.B) {
			return vlib.Fail("EncodeGeometry(%v,%d) = %d decodes to (%v,%d)", enc, c.B, v, compact.DecodeGeometryEncoding(v), compact.DecodeGeometryLen(v))
		}
		var buf [10]byte
		n := compact.MarshalGeometryEncodingAndLength(enc, int(c.B), buf[:])
		ge, gl, m := compact.UnmarshalGeometryEncodingAndLength(buf[:])
		if ge != enc || gl != int(c.B) || n != m {
			return vlib.Fail("MarshalGeometryEncodingAndLength(%v,%d) round trips to (%v,%d), %d bytes written %d read", enc, c.B, ge, gl, n, m)
		}
		// and through the value-type wrapper used in tag values
		e := compact.EncodeValueType(b6.ExpressionTypeExpressions, v)
		if compact.DecodeGeometryLen(e>>compact.ValueTypeBits) != int(c.B) || compact.DecodeGeometryEncoding(e>>compact.ValueTypeBits) != enc {
			return vlib.Fail("geometry (%v,%d) wrapped in a value type decodes wrongly", enc, c.B)
		}
		return vlib.Outcome{NonTrivial: topByte(c.B, 32)}
	case "bucketheader":
		// A = id, B = tag, C = length, D = feature count<<3 | feature type
		ft := b6.FeatureType(c.D & 7)
		count := c.D >> 3
		if ft > b6.FeatureTypeRelation || count == 0 {
			return vlib.Outcome{Skip: true}
		}
		tb := compact.VerifTagBits(ft)
		bb := compact.VerifBucketBitsForCount(count)
		if c.B >= 1<<uint(tb) || c.C >= 1<<31 {
			return vlib.Outcome{Skip: true}
		}
		layout := encoding.Uint64MapLayout{BucketBits: bb, TagBits: tb}
		if bb <= 16 { // the layout the builder really creates (allocates 2^bb pointers)
			layout = encoding.NewUint64MapBuilder(bb, tb).Layout
		}
		if layout.BucketBits < 1 || layout.BucketBits > 64 {
			return vlib.Fail("builder creates %d bucket bits for %d features", layout.BucketBits, count)
		}
		if count > 1 && uint64(1)<<uint(layout.BucketBits) < count && layout.BucketBits < 63 {
			return vlib.Fail("builder creates %d bucket bits for %d features (fewer buckets than features)", layout.BucketBits, count)
		}
		id, tag, length, w, r := encoding.VerifBucketHeaderRoundTrip(c.A, encoding.Tag(c.B), int(c.C), layout)
		if id != c.A || uint64(tag) != c.B || uint64(length) != c.C || w != r {
			return vlib.Fail("bucket header (id %d, tag %d, length %d) with layout %+v (type %v, %d features) decodes to (id %d, tag %d, length %d); wrote %d bytes read %d", c.A, c.B, c.C, layout, ft, count, id, tag, length, w, r)
		}
		return vlib.Outcome{NonTrivial: topByte(c.A, 64), Classes: []string{fmt.Sprintf("bucketheader/tagbits=%d", layout.TagBits)}}
	case "tile":
		z, x, y := uint(c.A), uint(c.B), uint(c.C)
		if z > 29 || c.B >= 1<<z || c.C >= 1<<z {
			return vlib.Outcome{Skip: true}
		}
		id := b6.TileIDFromXYZ(x, y, z)
		gx, gy, gz := id.ToXYZ()
		if gx != x || gy != y || gz != z {
			return vlib.Fail("TileIDFromXYZ(%d,%d,%d).ToXYZ() = (%d,%d,%d)", x, y, z, gx, gy, gz)
		}
		if t := id.ToTile(); t.ToID() != id {
			return vlib.Fail("tile %d/%d/%d: ToTile().ToID() differs", z, x, y)
		}
		if back := b6.TileIDFromToken(id.ToToken()); back != id {
			return vlib.Fail("tile %d/%d/%d: token %q parses to %d, want %d", z, x, y, id.ToToken(), back, id)
		}
		if z > 0 {
			px, py, pz := id.Parent().ToXYZ()
			if px != x/2 || py != y/2 || pz != z-1 {
				return vlib.Fail("tile %d/%d/%d: parent is %d/%d/%d", z, x, y, pz, px, py)
			}
		}
		return vlib.Outcome{NonTrivial: z >= 8 && (topByte(c.B, z) || topByte(c.C, z))}
	case "latlng":
		latE7, lngE7 := int32(uint32(c.A)), int32(uint32(c.B))
		if latE7 < -900000000 || latE7 > 900000000 || lngE7 < -1800000000 || lngE7 > 1800000000 {
			return vlib.Outcome{Skip: true}
		}
		id := b6.FeatureID{Type: b6.FeatureTypePoint, Namespace: b6.NamespaceLatLng, Value: uint64(uint32(latE7))<<32 | uint64(uint32(lngE7))}
		ll, ok := ingest.LatLngFromID(id)
		if !ok {
			return vlib.Fail("LatLngFromID(%v) not ok", id)
		}
		if ll.Lat.E7() != latE7 || ll.Lng.E7() != lngE7 {
			return vlib.Fail("LatLngFromID(lat %d lng %d E7) = %v (E7 %d,%d)", latE7, lngE7, ll, ll.Lat.E7(), ll.Lng.E7())
		}
		if back := ingest.NewLatLngID(ll); back != id {
			return vlib.Fail("NewLatLngID(LatLngFromID(%v)) = %v", id, back)
		}
		exact := s2.LatLng{Lat: s1.Angle(latE7) * s1.E7, Lng: s1.Angle(lngE7) * s1.E7}
		if back := ingest.NewLatLngID(exact); back != id {
			return vlib.Fail("NewLatLngID(%d,%d E7) = %v, want %v", latE7, lngE7, back, id)
		}
		return vlib.Outcome{NonTrivial: latE7 < 0 || lngE7 < 0}
	case "postcode":
		p := c.S
		if len(p) < 5 || len(p) > 7 || strings.Trim(p, "ABCDEFGHIJKLMNOPQRSTUVWXYZ0123456789") != "" {
			return vlib.Outcome{Skip: true}
		}
		id := b6.PointIDFromGBPostcode(p)
		if id == b6.FeatureIDInvalid || id.Type != b6.FeatureTypePoint || id.Namespace != b6.NamespaceGBCodePoint {
			return vlib.Fail("PointIDFromGBPostcode(%q) = %v", p, id)
		}
		back, ok := b6.PostcodeFromPointID(id)
		if !ok || back != p {
			return vlib.Fail("PostcodeFromPointID(PointIDFromGBPostcode(%q)) = %q,%v", p, back, ok)
		}
		// the usual written form (lower case, with a space) is the same ID
		if id2 := b6.PointIDFromGBPostcode(strings.ToLower(p[:len(p)-3] + " " + p[len(p)-3:])); id2 != id {
			return vlib.Fail("PointIDFromGBPostcode of the spaced lower-case form of %q = %v, want %v", p, id2, id)
		}
		return vlib.Outcome{NonTrivial: len(p) == 7 || p[0] >= 'Q'}
	case "ons":
		letter, number, year, ft := byte('A'+c.A%26), c.B, int(c.C), b6.FeatureType(c.D)
		if number > 99999999 || year < 1900 || year > 2155 || c.D > 3 {
			return vlib.Outcome{Skip: true}
		}
		code := fmt.Sprintf("%c%08d", letter, number)
		id := b6.FeatureIDFromUKONSCode(code, year, ft)
		if id == b6.FeatureIDInvalid || id.Type != ft || id.Namespace != b6.NamespaceUKONSBoundaries {
			return vlib.Fail("FeatureIDFromUKONSCode(%q,%d,%v) = %v", code, year, ft, id)
		}
		gc, gy, ok := b6.UKONSCodeFromFeatureID(id)
		if !ok || gc != code || gy != year {
			return vlib.Fail("UKONSCodeFromFeatureID(FeatureIDFromUKONSCode(%q,%d)) = %q,%d,%v", code, year, gc, gy, ok)
		}
		return vlib.Outcome{NonTrivial: number >= 1<<24 || year >= 2028}
	}
	return vlib.Outcome{Skip: true}
}

func putUvarint(buf []byte, x uint64) int {
	i := 0
	for x >= 0x80 {
		buf[i] = byte(x) | 0x80
		x >>= 7
		i++
	}
	buf[i] = byte(x)
	return i + 1
}

const alnum = "ABCDEFGHIJKLMNOPQRSTUVWXYZ0123456789"

func gen_(t *rapid.T) Case {
	kind := rapid.SampledFrom([]string{"zigzag64", "zigzag32", "typens", "valuetype", "valuetype-overflow", "geometry", "bucketheader", "bucketheader", "tile", "latlng", "postcode", "ons"}).Draw(t, "kind")
	c := Case{Kind: kind}
	switch kind {
	case "zigzag64":
		c.A = gen.U64().Draw(t, "v")
	case "zigzag32":
		c.A = uint64(uint32(gen.U64().Draw(t, "v") >> uint(rapid.SampledFrom([]int{0, 32}).Draw(t, "shift"))))
	case "typens":
		c.A = uint64(rapid.IntRange(0, 6).Draw(t, "type"))
		c.B = uint64(rapid.IntRange(0, 8191).Draw(t, "ns"))
	case "valuetype":
		c.A = uint64(rapid.IntRange(0, 3).Draw(t, "type"))
		c.B = gen.U64().Draw(t, "v") >> 2
	case "valuetype-overflow":
		c.A = uint64(rapid.IntRange(0, 3).Draw(t, "type"))
		c.B = gen.U64().Draw(t, "v") | 1<<uint(rapid.IntRange(62, 63).Draw(t, "bit"))
	case "geometry":
		c.A = uint64(rapid.IntRange(0, 2).Draw(t, "enc"))
		c.B = gen.U64().Draw(t, "len") >> uint(rapid.IntRange(24, 63).Draw(t, "shift"))
	case "bucketheader":
		c.A = gen.U64().Draw(t, "id")
		ft := uint64(rapid.IntRange(0, 3).Draw(t, "type"))
		c.B = uint64(rapid.IntRange(0, (1<<compact.VerifTagBits(b6.FeatureType(ft)))-1).Draw(t, "tag"))
		c.C = uint64(rapid.IntRange(0, 1<<20).Draw(t, "length"))
		count := uint64(1) << uint(rapid.IntRange(0, 40).Draw(t, "countbits"))
		count = uint64(int64(count) + int64(rapid.IntRange(-1, 1).Draw(t, "countdelta")))
		if count == 0 {
			count = 1
		}
		c.D = count<<3 | ft
	case "tile":
		z := uint(rapid.IntRange(0, 29).Draw(t, "z"))
		c.A = uint64(z)
		c.B = rapid.Uint64Range(0, 1<<z-1).Draw(t, "x")
		c.C = rapid.Uint64Range(0, 1<<z-1).Draw(t, "y")
	case "latlng":
		c.A = uint64(uint32(int32(rapid.IntRange(-900000000, 900000000).Draw(t, "lat"))))
		c.B = uint64(uint32(int32(rapid.IntRange(-1800000000, 1800000000).Draw(t, "lng"))))
	case "postcode":
		n := rapid.IntRange(5, 7).Draw(t, "len")
		b := make([]byte, n)
		for i := range b {
			b[i] = alnum[rapid.IntRange(0, 35).Draw(t, "ch")]
		}
		c.S = string(b)
	case "ons":
		c.A = uint64(rapid.IntRange(0, 25).Draw(t, "letter"))
		c.B = uint64(rapid.IntRange(0, 99999999).Draw(t, "number"))
		c.C = uint64(rapid.IntRange(1900, 2155).Draw(t, "year"))
		c.D = uint64(rapid.IntRange(0, 3).Draw(t, "type"))
	}
	return c
}

func TestPropRandom(t *testing.T) {
	vlib.Run(t, vlib.Config{ID: "C10", Name: "random", NoWAL: true,
		Rule: "boundary-biased random inputs for each packing (zigzag 64/32 bit, type+namespace, value type, geometry encoding+length, hash-map bucket header for the layouts the compact builder creates for 2^0..2^40 features of each type, tile IDs zoom 0-29, lat/lng IDs, GB postcodes of 5-7 alphanumerics, ONS codes); oracle inverse(pack(x)) == x; non-trivial = a bit set in the top byte of the widest field (or the class-specific high region)"},
		gen_, check)
}

// TestPropExhaustive enumerates the small domains completely and the large
// ones on a structured grid (single bits, all-ones prefixes, corners).
func TestPropExhaustive(t *testing.T) {
	cfg := vlib.Config{ID: "C10", Name: "enumerated", NoWAL: true,
		Rule: "enumeration: all 7 feature types x 8192 namespaces; for every layout the builder creates (feature counts 2^k and 2^k+-1, k=0..40, each feature type, every tag) every single-bit ID, every all-ones-prefix/suffix ID; every zoom 0..29 with corner and single-bit x,y; single-bit and all-ones-prefix values for both zigzags, value types and geometry lengths; each postcode position x 36 symbols x 3 lengths; 26 letters x 256 years x boundary numbers for ONS codes; lat/lng grid including extremes; non-trivial as in the random campaign"}
	d := vlib.Direct(t, cfg)
	if vlib.Replay(t, d.Recorder(), check) {
		return
	}
	defer d.Done(false)
	run := func(c Case) { vlib.DirectCase(d, c, check) }
	var patterns []uint64
	for b := uint(0); b < 64; b++ {
		patterns = append(patterns, 1<<b, (1<<b)-1, ^uint64(0)<<b, ^((uint64(1) << b) - 1) >> 1)
	}
	patterns = append(patterns, 0, math.MaxUint64, 1<<63|5)
	for _, p := range patterns {
		run(Case{Kind: "zigzag64", A: p})
		run(Case{Kind: "zigzag32", A: uint64(uint32(p))})
		run(Case{Kind: "zigzag32", A: uint64(uint32(p >> 32))})
		for ty := uint64(0); ty < 4; ty++ {
			if p < 1<<62 {
				run(Case{Kind: "valuetype", A: ty, B: p})
			} else {
				run(Case{Kind: "valuetype-overflow", A: ty, B: p})
			}
		}
		for e := uint64(0); e < 3; e++ {
			run(Case{Kind: "geometry", A: e, B: p >> 24})
		}
	}
	for ty := uint64(0); ty <= 6; ty++ {
		for ns := uint64(0); ns < 8192; ns++ {
			run(Case{Kind: "typens", A: ty, B: ns})
		}
	}
	for k := uint(0); k <= 40; k++ {
		for _, dlt := range []int64{-1, 0, 1} {
			count := uint64(int64(uint64(1)<<k) + dlt)
			if count == 0 {
				continue
			}
			for ft := uint64(0); ft < 4; ft++ {
				for tag := uint64(0); tag < 1<<uint(compact.VerifTagBits(b6.FeatureType(ft))); tag++ {
					for _, p := range patterns {
						run(Case{Kind: "bucketheader", A: p, B: tag, C: uint64(k) * 1000, D: count<<3 | ft})
					}
				}
			}
		}
	}
	for z := uint(0); z <= 29; z++ {
		max := uint64(1)<<z - 1
		coords := []uint64{0, max, max / 2, max/2 + 1}
		for b := uint(0); b < z; b++ {
			coords = append(coords, 1<<b)
		}
		for _, x := range coords {
			for _, y := range coords {
				if x <= max && y <= max {
					run(Case{Kind: "tile", A: uint64(z), B: x, C: y})
				}
			}
		}
	}
	for _, lat := range []int32{-900000000, -899999999, -1, 0, 1, 515350470, 899999999, 900000000, -123456789, 333333333} {
		for _, lng := range []int32{-1800000000, -1799999999, -1, 0, 1, -1234567, 1799999999, 1800000000, 1111111111, -999999999} {
			run(Case{Kind: "latlng", A: uint64(uint32(lat)), B: uint64(uint32(lng))})
		}
	}
	for n := 5; n <= 7; n++ {
		for pos := 0; pos < n; pos++ {
			for _, ch := range alnum {
				for _, fill := range []byte{'A', '0', 'Z', '9'} {
					b := []byte(strings.Repeat(string(fill), n))
					b[pos] = byte(ch)
					run(Case{Kind: "postcode", S: string(b)})
				}
			}
		}
	}
	for letter := uint64(0); letter < 26; letter++ {
		for year := uint64(1900); year <= 2155; year++ {
			for _, number := range []uint64{0, 1, 9, 1<<24 - 1, 1 << 24, 1<<24 + 1, 1<<26 + 12345, 92000001, 99999999} {
				run(Case{Kind: "ons", A: letter, B: number, C: year, D: (letter + year) % 4})
			}
		}
	}
}
