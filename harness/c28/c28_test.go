// C28: a callback error stops streaming and is reported.
package c28

import (
	"bytes"
	"context"
	"errors"
	"fmt"
	"os"
	"path/filepath"
	"runtime"
	"sync/atomic"
	"testing"
	"time"

	"diagonal.works/b6"
	"diagonal.works/b6/encoding"
	"diagonal.works/b6/ingest"
	"diagonal.works/b6/ingest/compact"
	"diagonal.works/b6/osm"
	"pgregory.net/rapid"
	"verif/vlib"
	"verif/wm"
)

type Case struct {
	Stream     string `json:"stream"` // uint64map memory-source pbf pbf-files each-feature-{basic,mutable,overlay,compact} modified-tags modified-features
	Items      int    `json:"items"`
	FailAt     int    `json:"fail_at"`   // the callback invocation that fails, counted from 1; 0 = none does
	FailAlso   int    `json:"fail_also"` // a second invocation that fails; 0 = none
	Goroutines int    `json:"goroutines"`
	Yields     uint64 `json:"yields"` // bit i: invocation i yields the processor before returning
	Files      int    `json:"files"`  // pbf-files: how many files the elements are spread over
}

var streams = []string{"uint64map", "memory-source", "pbf", "pbf-files", "each-feature-basic", "each-feature-mutable", "each-feature-overlay", "each-feature-compact", "modified-tags", "modified-features"}

func gen(t *rapid.T) Case {
	c := Case{Stream: rapid.SampledFrom(streams).Draw(t, "stream"), Goroutines: rapid.IntRange(1, 4).Draw(t, "goroutines"), Yields: rapid.Uint64().Draw(t, "yields"), Files: rapid.IntRange(2, 3).Draw(t, "files")}
	c.Items = rapid.OneOf(rapid.IntRange(1, 12), rapid.IntRange(12, 80), rapid.IntRange(300, 600)).Draw(t, "items")
	switch rapid.IntRange(0, 5).Draw(t, "failkind") {
	case 0:
		c.FailAt = 0
	case 1:
		c.FailAt = 1
	case 2:
		c.FailAt = c.Items
	default:
		c.FailAt = rapid.IntRange(1, c.Items).Draw(t, "failat")
	}
	if rapid.IntRange(0, 3).Draw(t, "earlyfailure") == 0 {
		// many items, several goroutines and an early failure: where an enumeration that carries on shows
		c.Items = rapid.IntRange(300, 600).Draw(t, "manyitems")
		c.Goroutines = rapid.IntRange(2, 4).Draw(t, "severalgoroutines")
		c.FailAt = rapid.IntRange(1, 5).Draw(t, "earlyfailat")
	}
	if c.FailAt > 0 && rapid.IntRange(0, 3).Draw(t, "second") == 0 {
		c.FailAlso = rapid.IntRange(1, c.Items).Draw(t, "failalso")
	}
	return c
}

var errCallback = errors.New("the callback's error")

// probe is the callback: it counts its invocations, fails on the chosen ones,
// and counts the invocations that start after a failing one has returned.
type probe struct {
	c        Case
	started  int64
	failed   int32
	after    int64 // invocations started after the first failing one was about to return
	returned int64
}

func (p *probe) call() error {
	n := atomic.AddInt64(&p.started, 1)
	if atomic.LoadInt32(&p.failed) != 0 {
		atomic.AddInt64(&p.after, 1)
	}
	if n <= 64 && p.c.Yields&(1<<uint(n-1)) != 0 {
		runtime.Gosched()
	}
	defer atomic.AddInt64(&p.returned, 1)
	if int(n) == p.c.FailAt || int(n) == p.c.FailAlso {
		atomic.StoreInt32(&p.failed, 1)
		return errCallback
	}
	return nil
}

func pointFeatures(n int) []wm.FeatureS {
	fs := make([]wm.FeatureS, 0, n)
	for i := 0; i < n; i++ {
		ll := wm.LL{Lat: 515350000 + int32(i/20)*1000, Lng: -1250000 + int32(i%20)*1500}
		fs = append(fs, wm.FeatureS{ID: wm.FID{T: 0, NS: string(b6.NamespaceOSMNode), V: uint64(i + 1)}, Point: &ll, Tags: []wm.TagS{{K: "#amenity", V: "cafe"}}})
	}
	return fs
}

// stream starts the enumeration, returning the number of items it would
// deliver and a function that runs it.
func stream(c Case, p *probe) (int, func() error, func(), error) {
	cleanup := func() {}
	each := func(w b6.World) func() error {
		return func() error {
			return w.EachFeature(func(b6.Feature, int) error { return p.call() }, &b6.EachFeatureOptions{Goroutines: c.Goroutines})
		}
	}
	switch c.Stream {
	case "uint64map":
		b := encoding.NewUint64MapBuilder(6, 2)
		id := func(i int) uint64 { return uint64(i+1) * 2654435761 }
		for i := 0; i < c.Items; i++ {
			b.Reserve(id(i), encoding.Tag(i%4), 4)
		}
		b.FinishReservation()
		var buf encoding.Buffer
		end, err := b.WriteHeader(&buf, 0)
		if err != nil {
			return 0, nil, cleanup, err
		}
		for i := 0; i < c.Items; i++ {
			if err := b.WriteItem(id(i), encoding.Tag(i%4), []byte{1, 2, 3, 4}, &buf); err != nil {
				return 0, nil, cleanup, err
			}
		}
		data := buf.Bytes()
		if len(data) < int(end) {
			data = append(data, make([]byte, int(end)-len(data))...)
		}
		m := encoding.NewUint64Map(data)
		return c.Items, func() error {
			return m.EachItem(func(uint64, []encoding.Tagged, int) error { return p.call() }, c.Goroutines)
		}, cleanup, nil
	case "memory-source":
		source := ingest.MemoryFeatureSource(wm.Features(pointFeatures(c.Items)))
		return c.Items, func() error {
			return source.Read(ingest.ReadOptions{Goroutines: c.Goroutines}, func(ingest.Feature, int) error { return p.call() }, context.Background())
		}, cleanup, nil
	case "pbf", "pbf-files":
		files := 1
		if c.Stream == "pbf-files" {
			files = c.Files
		}
		var data [][]byte
		for f := 0; f < files; f++ {
			var buf bytes.Buffer
			w, err := osm.NewWriter(&buf)
			if err != nil {
				return 0, nil, cleanup, err
			}
			for i := f; i < c.Items; i += files {
				if err := w.WriteElement(&osm.Node{ID: osm.NodeID(i + 1), Location: osm.LatLng{Lat: 51.5 + float64(i)*1e-5, Lng: -0.1}, Tags: []osm.Tag{{Key: "name", Value: fmt.Sprint(i)}}}); err != nil {
					return 0, nil, cleanup, err
				}
			}
			if err := w.Flush(); err != nil {
				return 0, nil, cleanup, err
			}
			data = append(data, buf.Bytes())
		}
		emit := func(osm.Element, int) error { return p.call() }
		if c.Stream == "pbf" {
			return c.Items, func() error {
				return osm.ReadPBFWithOptions(bytes.NewReader(data[0]), emit, osm.ReadOptions{Cores: c.Goroutines})
			}, cleanup, nil
		}
		dir, err := os.MkdirTemp(os.Getenv("VERIF_WORK"), "c28-")
		if err != nil {
			return 0, nil, cleanup, err
		}
		cleanup = func() { os.RemoveAll(dir) }
		for f, d := range data {
			if err := os.WriteFile(filepath.Join(dir, fmt.Sprintf("part-%d.osm.pbf", f)), d, 0644); err != nil {
				return 0, nil, cleanup, err
			}
		}
		source := &ingest.PBFFilesOSMSource{Glob: filepath.Join(dir, "*.osm.pbf"), FailWhenNoFiles: true}
		return c.Items, func() error {
			return source.Read(osm.ReadOptions{Cores: c.Goroutines}, emit, context.Background())
		}, cleanup, nil
	case "each-feature-basic":
		w, err := wm.BuildBasic(pointFeatures(c.Items), 1, true)
		return c.Items, each(w), cleanup, err
	case "each-feature-mutable":
		w, err := wm.BuildMutable(pointFeatures(c.Items))
		if err != nil {
			return 0, nil, cleanup, err
		}
		return c.Items, each(w), cleanup, nil
	case "each-feature-overlay":
		fs := pointFeatures(c.Items)
		base, err := wm.BuildBasic(fs[:len(fs)/2], 1, true)
		if err != nil {
			return 0, nil, cleanup, err
		}
		w := ingest.NewMutableOverlayWorld(base)
		for _, f := range fs[len(fs)/2:] {
			if err := w.AddFeature(wm.ToIngest(f)); err != nil {
				return 0, nil, cleanup, err
			}
		}
		return c.Items, each(w), cleanup, nil
	case "each-feature-compact":
		var w *compact.World
		w, err := wm.BuildCompact(pointFeatures(c.Items), 1)
		if err != nil {
			return 0, nil, cleanup, err
		}
		return c.Items, each(w), cleanup, nil
	case "modified-tags", "modified-features":
		base, err := wm.BuildBasic(pointFeatures(c.Items), 1, true)
		if err != nil {
			return 0, nil, cleanup, err
		}
		w := ingest.NewMutableOverlayWorld(base)
		for i := 0; i < c.Items; i++ {
			id := b6.FeatureID{Type: b6.FeatureTypePoint, Namespace: b6.NamespaceOSMNode, Value: uint64(i + 1)}
			tag := b6.Tag{Key: "name", Value: b6.NewStringExpression("x")}
			if c.Stream == "modified-features" {
				tag.Key = "#shop" // an indexed tag copies the feature into the overlay
			}
			if err := w.AddTag(id, tag); err != nil {
				return 0, nil, cleanup, err
			}
		}
		options := &b6.EachFeatureOptions{Goroutines: c.Goroutines}
		if c.Stream == "modified-tags" {
			return c.Items, func() error {
				return w.EachModifiedTag(func(ingest.ModifiedTag, int) error { return p.call() }, options)
			}, cleanup, nil
		}
		return c.Items, func() error {
			return w.EachModifiedFeature(func(b6.Feature, int) error { return p.call() }, options)
		}, cleanup, nil
	}
	return 0, nil, cleanup, fmt.Errorf("unknown stream %q", c.Stream)
}

func check(c Case) vlib.Outcome {
	if c.Items < 1 || c.Items > 2000 || c.Goroutines < 1 || c.Goroutines > 8 || c.FailAt < 0 || c.FailAt > c.Items || c.FailAlso < 0 || c.FailAlso > c.Items || c.Files < 1 || c.Files > 4 || (c.FailAt == 0 && c.FailAlso != 0) {
		return vlib.Outcome{Skip: true}
	}
	for _, sig := range []string{"c28-" + c.Stream} {
		if vlib.Known(sig) && c.FailAt > 0 {
			return vlib.Excluded(sig)
		}
	}
	// Promptly: once a failing callback has returned, each goroutine may finish the item it holds and
	// take those already queued; anything beyond a small multiple of the goroutine count is an
	// enumeration that carries on. The goroutine that failed can be descheduled between failing and
	// saying so, which lets the others get further: the enumeration is only held to carry on if it
	// does so on five attempts in a row.
	limit := 8*c.Goroutines + 8
	var n, after int
	var what string
	for attempt := 0; attempt < 5; attempt++ {
		p := &probe{c: c}
		var run func() error
		var cleanup func()
		var err error
		n, run, cleanup, err = stream(c, p)
		if err != nil {
			cleanup()
			return vlib.Fail("setting up %s with %d items failed: %v", c.Stream, c.Items, err)
		}
		done := make(chan error, 1)
		go func() { done <- run() }()
		var result error
		select {
		case result = <-done:
		case <-time.After(5 * time.Second):
			cleanup()
			return vlib.Fail("%s over %d items with %d goroutines hasn't returned 5s after invocation %d of the callback failed (%d invocations started, %d returned)", c.Stream, n, c.Goroutines, c.FailAt, atomic.LoadInt64(&p.started), atomic.LoadInt64(&p.returned))
		}
		cleanup()
		started := int(atomic.LoadInt64(&p.started))
		after = int(atomic.LoadInt64(&p.after))
		what = fmt.Sprintf("%s over %d items with %d goroutines", c.Stream, n, c.Goroutines)
		if c.FailAt == 0 {
			if result != nil {
				return vlib.Fail("%s fails although no callback did: %v", what, result)
			}
			if started != n {
				return vlib.Fail("%s invoked the callback %d times", what, started)
			}
			return vlib.Outcome{Classes: []string{"stream=" + c.Stream, "no-failure"}}
		}
		if result == nil {
			return vlib.Fail("%s reports success although invocation %d of the callback returned an error", what, c.FailAt)
		}
		if after <= limit {
			break
		}
		if attempt == 4 {
			return vlib.Fail("%s invoked the callback %d more times after invocation %d had failed, and more than %d on each of 5 attempts", what, after, c.FailAt, limit)
		}
	}
	out := vlib.Outcome{NonTrivial: n-c.FailAt > 2*limit, Classes: []string{"stream=" + c.Stream}}
	if c.Goroutines > 1 {
		out.Classes = append(out.Classes, "parallel")
	}
	if c.FailAlso > 0 {
		out.Classes = append(out.Classes, "two-failures")
	}
	return out
}

func TestProp(t *testing.T) {
	vlib.Run(t, vlib.Config{ID: "C28", Name: "callback-errors", CaseTimeout: 120e9,
		Rule: "each streaming interface (Uint64Map.EachItem, MemoryFeatureSource.Read, ReadPBFWithOptions, PBFFilesOSMSource over 2-3 files, EachFeature of basic, mutable, overlay and compact worlds, EachModifiedTag, EachModifiedFeature) over 1-600 items with 1-4 goroutines; the callback fails on a generated invocation (first, last, any, none; sometimes a second one too) and yields the processor on a generated subset of its first 64 invocations; oracle: an error is returned exactly when a callback failed, the call returns within 5 s, at most 8*goroutines+8 invocations start after a failing one (on at least one of up to 5 attempts, since the failing goroutine can be descheduled before it reports), and without a failure every item is delivered once; non-trivial = more than twice that many items remain after the failure"},
		gen, check)
}
