// C21: the VM evaluates programs as the language defines.
package c21

import (
	"fmt"
	"reflect"
	"testing"

	"diagonal.works/b6/api"
	"pgregory.net/rapid"
	"verif/lang"
	"verif/vlib"
)

type Case struct {
	E lang.E `json:"e"`
}

func gen(t *rapid.T) Case {
	return Case{E: lang.Gen{IllFormed: rapid.IntRange(0, 3).Draw(t, "illformed") == 0}.Program(t, rapid.IntRange(1, 5).Draw(t, "depth"))}
}

func evaluate(e lang.E) (result interface{}, err error, panicked interface{}) {
	defer func() {
		if p := recover(); p != nil {
			panicked = p
		}
	}()
	result, err = api.Evaluate(e.Build(), lang.NewContext())
	return
}

func check(c Case) vlib.Outcome {
	ok, size := c.E.Valid()
	if !ok || size > 120 {
		return vlib.Outcome{Skip: true}
	}
	in := &lang.Interp{}
	var want lang.Value
	werr := lang.Static(&c.E, nil)
	static := werr != nil
	if !static {
		want, werr = in.Eval(&c.E, nil)
		if werr == lang.ErrTooLong {
			return vlib.Outcome{Skip: true}
		}
	}
	for sig, present := range map[string]bool{"c21-register-aliasing": false} {
		if present && vlib.Known(sig) {
			return vlib.Excluded(sig)
		}
	}
	got, gerr, panicked := evaluate(c.E)
	if panicked != nil {
		return vlib.Fail("the VM panics evaluating %s: %v (the language gives %v, error %v)", c.E, panicked, show(want), werr)
	}
	switch {
	case werr != nil && gerr == nil:
		return vlib.Fail("the VM evaluates %s to %v; the language reports an error: %v", c.E, show(got), werr)
	case werr == nil && gerr != nil:
		return vlib.Fail("the VM fails to evaluate %s: %v; the language gives %v", c.E, gerr, show(want))
	case werr == nil:
		switch want.(type) {
		case int, lang.P:
			if !reflect.DeepEqual(got, want) {
				return vlib.Fail("the VM evaluates %s to %v; the language gives %v", c.E, show(got), show(want))
			}
		default:
			if _, ok := got.(api.Callable); !ok {
				return vlib.Fail("the VM evaluates %s to %v; the language gives a function", c.E, show(got))
			}
		}
	}
	out := vlib.Outcome{NonTrivial: size >= 5 && werr == nil}
	for name, present := range map[string]bool{
		"error-expected": werr != nil, "rejected-by-compiler": static, "over-application": in.OverApplied, "call-of-non-function": in.CalledNonFunction,
		"type-error": in.TypeError, "partial-of-partial": in.PartialOfPartial, "partial-lambda": in.PartialLambda, "shadowed-parameter": in.Shadowed, "closure-captures": in.ClosureCapture,
	} {
		if present {
			out.Classes = append(out.Classes, name)
		}
	}
	return out
}

func show(v interface{}) string {
	switch v := v.(type) {
	case nil:
		return "nothing"
	case int, lang.P:
		return fmt.Sprintf("%v", v)
	}
	return fmt.Sprintf("a %T", v)
}

func TestProp(t *testing.T) {
	vlib.Run(t, vlib.Config{ID: "C21", Name: "vm-vs-interpreter", NoWAL: true,
		Rule: "type-directed programs to depth 1-5 over a harness library (add, sub, mul, div, neg, sub3, pair, first, second, apply, apply2, twice, compose): calls, lambdas of 0-2 parameters with shadowed names from a pool of three, lambdas returning lambdas that capture outer parameters, partial application of natives, lambdas and partial applications, pipelines, calls whose function is a lambda literal or a call, zero-argument calls, division by zero inside lambdas, plus the labelled ill-formed classes over-application and calling a non-function; oracle: a direct interpreter with lexical environments in which partial application binds the trailing parameters: equal int/pair value, an error wherever the interpreter reports an error, and never a panic; non-trivial = at least 5 nodes evaluating to a value"},
		gen, check)
}
