// C11: every compact record kind round-trips through its codec, and decoding
// consumes exactly the bytes encoding wrote.
package c11

import (
	"encoding/json"
	"fmt"
	"sort"
	"testing"

	"diagonal.works/b6"
	"diagonal.works/b6/encoding"
	"diagonal.works/b6/ingest/compact"
	pb "diagonal.works/b6/proto"
	"pgregory.net/rapid"
	"verif/gen"
	"verif/vlib"
)

type Ref struct {
	T  int    `json:"t"`
	NS int    `json:"ns"`
	V  uint64 `json:"v,string"`
}

type LL struct {
	Lat int32 `json:"lat"`
	Lng int32 `json:"lng"`
}

type MixedEl struct {
	Ref *Ref `json:"ref,omitempty"`
	LL  *LL  `json:"ll,omitempty"`
}

type Val struct {
	Kind  string    `json:"kind"` // int, ll, lls, refs, mixed
	Int   int       `json:"int,omitempty"`
	LL    *LL       `json:"ll,omitempty"`
	LLs   []LL      `json:"lls,omitempty"`
	Refs  []Ref     `json:"refs,omitempty"`
	Mixed []MixedEl `json:"mixed,omitempty"`
}

type TagC struct {
	Key int `json:"key"`
	Val Val `json:"val"`
}

type Mem struct {
	Type int `json:"type"`
	Role int `json:"role"`
	ID   Ref `json:"id"`
}

type Poly struct {
	Refs   []Ref `json:"refs,omitempty"`
	Loops  []int `json:"loops,omitempty"`
	Points []LL  `json:"points,omitempty"`
}

type Case struct {
	Kind    string    `json:"kind"`
	Primary Ref       `json:"primary"`
	NSS     [4]int    `json:"nss"`
	Tags    []TagC    `json:"tags,omitempty"`
	Refs    []Ref     `json:"refs,omitempty"`
	Refs2   []Ref     `json:"refs2,omitempty"`
	Ref     *Ref      `json:"ref,omitempty"`
	LLs     []LL      `json:"lls,omitempty"`
	Mixed   []MixedEl `json:"mixed,omitempty"`
	Bits    []bool    `json:"bits,omitempty"`
	Members []Mem     `json:"members,omitempty"`
	Polys   []Poly    `json:"polys,omitempty"`
	Splits  []int     `json:"splits,omitempty"`
	Strings []string  `json:"strings,omitempty"`
	Ints    []uint64  `json:"ints,omitempty"`
	Fill    byte      `json:"fill"`
}

var kinds = []string{"tags", "reference", "references", "latlngs", "mixed", "bits", "members", "area-refs", "area-latlngs", "area-mixed",
	"commonpoint", "fullpoint", "path", "area", "relation", "namespaces", "tokenmap", "postinglistheader", "headers", "string"}

// ---------------------------------------------------------------------------
// generators

func genRef(t *rapid.T, primary Ref) Ref {
	// type+namespace 0 is TypeAndNamespaceInvalid: never a real reference
	if rapid.IntRange(0, 9).Draw(t, "primaryRef") < 6 && !(primary.T == 0 && primary.NS == 0) {
		return Ref{primary.T, primary.NS, gen.U64().Draw(t, "v")}
	}
	return Ref{rapid.IntRange(0, 3).Draw(t, "t"), rapid.SampledFrom([]int{1, 2, 3, 100, 8191}).Draw(t, "ns"), gen.U64().Draw(t, "v")}
}

func genRefs(t *rapid.T, primary Ref, max int) []Ref {
	n := rapid.IntRange(0, max).Draw(t, "nrefs")
	out := make([]Ref, 0, n)
	for i := 0; i < n; i++ {
		out = append(out, genRef(t, primary))
	}
	return out
}

func genLL(t *rapid.T) LL {
	switch rapid.IntRange(0, 4).Draw(t, "llclass") {
	case 0:
		return LL{int32(rapid.SampledFrom([]int{-900000000, 900000000, 0, -1, 1}).Draw(t, "lat")), int32(rapid.SampledFrom([]int{-1800000000, 1800000000, 0, -1, 1}).Draw(t, "lng"))}
	case 1:
		return LL{rapid.Int32().Draw(t, "lat"), rapid.Int32().Draw(t, "lng")}
	default:
		return LL{int32(rapid.IntRange(515000000, 515999999).Draw(t, "lat")), int32(rapid.IntRange(-2000000, 2000000).Draw(t, "lng"))}
	}
}

func genLLs(t *rapid.T, max int) []LL {
	n := rapid.IntRange(0, max).Draw(t, "nlls")
	out := make([]LL, 0, n)
	for i := 0; i < n; i++ {
		out = append(out, genLL(t))
	}
	return out
}

func genMixed(t *rapid.T, primary Ref, max int) []MixedEl {
	n := rapid.IntRange(0, max).Draw(t, "nmixed")
	out := make([]MixedEl, 0, n)
	for i := 0; i < n; i++ {
		if rapid.Bool().Draw(t, "isref") {
			r := genRef(t, primary)
			out = append(out, MixedEl{Ref: &r})
		} else {
			l := genLL(t)
			out = append(out, MixedEl{LL: &l})
		}
	}
	return out
}

func genVal(t *rapid.T, primary Ref) Val {
	switch rapid.IntRange(0, 5).Draw(t, "valkind") {
	case 0, 1:
		return Val{Kind: "int", Int: int(gen.U64().Draw(t, "int") >> uint(rapid.IntRange(3, 63).Draw(t, "shift")))}
	case 2:
		l := genLL(t)
		return Val{Kind: "ll", LL: &l}
	case 3:
		return Val{Kind: "lls", LLs: genLLs(t, 6)}
	case 4:
		return Val{Kind: "refs", Refs: genRefs(t, primary, 6)}
	default:
		return Val{Kind: "mixed", Mixed: genMixed(t, primary, 6)}
	}
}

func genTags(t *rapid.T, primary Ref) []TagC {
	n := rapid.IntRange(0, 5).Draw(t, "ntags")
	out := make([]TagC, 0, n)
	for i := 0; i < n; i++ {
		out = append(out, TagC{Key: rapid.SampledFrom([]int{0, 1, 127, 128, 70000}).Draw(t, "key"), Val: genVal(t, primary)})
	}
	return out
}

func genSplits(t *rapid.T, max int) []int {
	n := rapid.IntRange(0, 4).Draw(t, "nsplits")
	out := make([]int, 0, n)
	v := 0
	for i := 0; i < n; i++ {
		v += rapid.IntRange(0, max).Draw(t, "split")
		out = append(out, v)
	}
	return out
}

func genPolys(t *rapid.T, primary Ref, mode string) []Poly {
	n := rapid.IntRange(0, 4).Draw(t, "npolys")
	out := make([]Poly, 0, n)
	for i := 0; i < n; i++ {
		isRef := mode == "refs" || mode == "mixed" && rapid.Bool().Draw(t, "polyref")
		if isRef {
			refs := genRefs(t, primary, 4)
			if mode == "mixed" && len(refs) == 0 {
				refs = []Ref{genRef(t, primary)}
			}
			out = append(out, Poly{Refs: refs})
		} else {
			out = append(out, Poly{Loops: genSplits(t, 5), Points: genLLs(t, 8)})
		}
	}
	return out
}

func gen_(t *rapid.T) Case {
	c := Case{Kind: rapid.SampledFrom(kinds).Draw(t, "kind"), Fill: rapid.SampledFrom([]byte{0, 0xff, 0x80, 0x7f, 0x55}).Draw(t, "fill")}
	if rapid.Bool().Draw(t, "osmlike") {
		c.NSS = [4]int{1, 2, 2, 3}
	} else {
		for i := range c.NSS {
			c.NSS[i] = rapid.SampledFrom([]int{1, 2, 3, 4, 100, 8191}).Draw(t, "nss")
		}
	}
	c.Primary = Ref{T: rapid.IntRange(0, 3).Draw(t, "pt"), NS: rapid.SampledFrom([]int{0, 1, 2, 3, 100, 8191}).Draw(t, "pns")}
	switch c.Kind {
	case "tags":
		c.Tags = genTags(t, c.Primary)
	case "reference":
		r := genRef(t, c.Primary)
		c.Ref = &r
	case "references":
		c.Refs = genRefs(t, c.Primary, 12)
	case "latlngs":
		c.LLs = genLLs(t, 12)
	case "mixed":
		c.Mixed = genMixed(t, c.Primary, 12)
	case "bits":
		c.Bits = rapid.SliceOfN(rapid.Bool(), 0, 40).Draw(t, "bits")
	case "members":
		n := rapid.IntRange(0, 6).Draw(t, "nmembers")
		for i := 0; i < n; i++ {
			c.Members = append(c.Members, Mem{Type: rapid.IntRange(0, 3).Draw(t, "mtype"), Role: int(gen.U64().Draw(t, "role") >> uint(rapid.IntRange(3, 63).Draw(t, "shift"))), ID: genRef(t, c.Primary)})
		}
	case "area-refs":
		c.Splits = genSplits(t, 4)
		c.Refs = genRefs(t, c.Primary, 10)
	case "area-latlngs":
		c.Polys = genPolys(t, c.Primary, "latlngs")
	case "area-mixed":
		c.Polys = genPolys(t, c.Primary, "mixed")
	case "commonpoint":
		c.Tags = genTags(t, Ref{})
		r := genRef(t, Ref{T: 1, NS: c.NSS[1]})
		c.Ref = &r
	case "fullpoint":
		c.Tags = genTags(t, Ref{})
		c.Refs = genRefs(t, Ref{T: 1, NS: c.NSS[1]}, 6)
		c.Refs2 = genRefs(t, Ref{T: 3, NS: c.NSS[3]}, 6)
	case "path":
		c.Tags = genTags(t, Ref{T: 0, NS: c.NSS[0]})
		c.Refs = genRefs(t, Ref{T: 2, NS: c.NSS[2]}, 6)
		c.Refs2 = genRefs(t, Ref{T: 3, NS: c.NSS[3]}, 6)
	case "area":
		c.Tags = genTags(t, Ref{})
		mode := rapid.SampledFrom([]string{"refs", "latlngs", "mixed"}).Draw(t, "areamode")
		c.Strings = []string{mode}
		if mode == "refs" {
			c.Splits = genSplits(t, 4)
			c.Refs = genRefs(t, Ref{T: 1, NS: c.NSS[1]}, 8)
		} else {
			c.Polys = genPolys(t, Ref{T: 1, NS: c.NSS[1]}, mode)
		}
		c.Refs2 = genRefs(t, Ref{T: 3, NS: c.NSS[3]}, 6)
	case "relation":
		c.Primary.T = rapid.IntRange(0, 3).Draw(t, "relprimary")
		c.Tags = genTags(t, Ref{})
		n := rapid.IntRange(0, 6).Draw(t, "nmembers")
		for i := 0; i < n; i++ {
			c.Members = append(c.Members, Mem{Type: rapid.IntRange(0, 3).Draw(t, "mtype"), Role: rapid.IntRange(0, 300).Draw(t, "role"), ID: genRef(t, Ref{T: c.Primary.T, NS: c.NSS[c.Primary.T]})})
		}
		c.Refs2 = genRefs(t, Ref{T: 3, NS: c.NSS[3]}, 6)
	case "namespaces":
		c.Strings = rapid.SliceOfNDistinct(rapid.SampledFrom([]string{"openstreetmap.org/node", "openstreetmap.org/way", "openstreetmap.org/relation", "diagonal.works/ns/x", "a/b/c", "z", "a"}), 0, 7, rapid.ID[string]).Draw(t, "namespaces")
	case "tokenmap":
		n := rapid.IntRange(0, 40).Draw(t, "ntokens")
		for i := 0; i < n; i++ {
			c.Strings = append(c.Strings, rapid.OneOf(rapid.SampledFrom([]string{"", "a", "b", "#amenity=cafe", "#highway=path", "é"}), rapid.StringN(0, 12, 24)).Draw(t, "token"))
			c.Ints = append(c.Ints, uint64(rapid.IntRange(0, 1<<40).Draw(t, "index")))
		}
	case "postinglistheader":
		c.Strings = []string{rapid.StringN(0, 30, 60).Draw(t, "token")}
		c.Ints = []uint64{uint64(rapid.IntRange(0, 1<<40).Draw(t, "features"))}
		n := rapid.IntRange(0, 6).Draw(t, "nns")
		for i := 0; i < n; i++ {
			c.Refs = append(c.Refs, Ref{T: rapid.IntRange(0, 3).Draw(t, "t"), NS: rapid.IntRange(0, 8191).Draw(t, "ns"), V: uint64(rapid.IntRange(0, 1<<40).Draw(t, "index"))})
		}
	case "headers":
		c.Ints = rapid.SliceOfN(gen.U64(), 8, 8).Draw(t, "fields")
	case "string":
		c.Strings = []string{rapid.String().Draw(t, "s")}
	}
	return c
}

// ---------------------------------------------------------------------------
// conversion between the case representation and compact's types

func tns(r Ref) compact.TypeAndNamespace {
	return compact.CombineTypeAndNamespace(b6.FeatureType(r.T), compact.Namespace(r.NS))
}

func toRef(r Ref) compact.Reference { return compact.Reference{TypeAndNamespace: tns(r), Value: r.V} }

func fromRef(r compact.Reference) Ref {
	t, ns := r.TypeAndNamespace.Split()
	return Ref{int(t), int(ns), r.Value}
}

func toRefs(rs []Ref) compact.References {
	out := make(compact.References, 0, len(rs))
	for _, r := range rs {
		out = append(out, toRef(r))
	}
	return out
}

func fromRefs(rs compact.References) []Ref {
	out := make([]Ref, 0, len(rs))
	for _, r := range rs {
		out = append(out, fromRef(r))
	}
	return out
}

func toLLs(ls []LL) compact.LatLngs {
	out := make(compact.LatLngs, 0, len(ls))
	for _, l := range ls {
		out = append(out, compact.LatLng{LatE7: l.Lat, LngE7: l.Lng})
	}
	return out
}

func fromLLs(ls compact.LatLngs) []LL {
	out := make([]LL, 0, len(ls))
	for _, l := range ls {
		out = append(out, LL{l.LatE7, l.LngE7})
	}
	return out
}

func toMixed(ms []MixedEl) compact.ReferencesAndLatLngs {
	out := make(compact.ReferencesAndLatLngs, 0, len(ms))
	for _, m := range ms {
		if m.Ref != nil {
			out = append(out, compact.ReferenceAndLatLng{Reference: toRef(*m.Ref)})
		} else if m.LL != nil {
			out = append(out, compact.ReferenceAndLatLng{LatLng: compact.LatLng{LatE7: m.LL.Lat, LngE7: m.LL.Lng}})
		}
	}
	return out
}

func fromMixed(ms compact.ReferencesAndLatLngs) []MixedEl {
	out := make([]MixedEl, 0, len(ms))
	for _, m := range ms {
		if m.Reference != compact.ReferenceInvald {
			r := fromRef(m.Reference)
			out = append(out, MixedEl{Ref: &r})
		} else {
			out = append(out, MixedEl{LL: &LL{m.LatLng.LatE7, m.LatLng.LngE7}})
		}
	}
	return out
}

func toTags(ts []TagC) compact.Tags {
	out := make(compact.Tags, 0, len(ts))
	for _, t := range ts {
		var v compact.Value
		switch t.Val.Kind {
		case "int":
			i := compact.Int(t.Val.Int)
			v = &i
		case "ll":
			v = &compact.LatLng{LatE7: t.Val.LL.Lat, LngE7: t.Val.LL.Lng}
		case "lls":
			l := toLLs(t.Val.LLs)
			v = &l
		case "refs":
			r := toRefs(t.Val.Refs)
			v = &r
		case "mixed":
			m := toMixed(t.Val.Mixed)
			v = &m
		}
		out = append(out, compact.Tag{Key: t.Key, Value: v})
	}
	return out
}

func fromTags(ts compact.Tags) []TagC {
	out := make([]TagC, 0, len(ts))
	for _, t := range ts {
		var v Val
		switch x := t.Value.(type) {
		case *compact.Int:
			v = Val{Kind: "int", Int: int(*x)}
		case *compact.LatLng:
			v = Val{Kind: "ll", LL: &LL{x.LatE7, x.LngE7}}
		case *compact.LatLngs:
			v = Val{Kind: "lls", LLs: fromLLs(*x)}
		case *compact.References:
			v = Val{Kind: "refs", Refs: fromRefs(*x)}
		case *compact.ReferencesAndLatLngs:
			v = Val{Kind: "mixed", Mixed: fromMixed(*x)}
		default:
			v = Val{Kind: fmt.Sprintf("%T", t.Value)}
		}
		out = append(out, TagC{Key: t.Key, Val: v})
	}
	return out
}

func toMembers(ms []Mem) compact.Members {
	out := make(compact.Members, 0, len(ms))
	for _, m := range ms {
		out = append(out, compact.Member{Type: b6.FeatureType(m.Type), Role: m.Role, ID: toRef(m.ID)})
	}
	return out
}

func fromMembers(ms compact.Members) []Mem {
	out := make([]Mem, 0, len(ms))
	for _, m := range ms {
		out = append(out, Mem{int(m.Type), m.Role, fromRef(m.ID)})
	}
	return out
}

func toGeometry(mode string, c Case) compact.AreaGeometry {
	switch mode {
	case "refs":
		return &compact.AreaGeometryReferences{Polygons: append([]int{}, c.Splits...), Paths: toRefs(c.Refs)}
	case "latlngs":
		g := &compact.AreaGeometryLatLngs{}
		for _, p := range c.Polys {
			g.Polygons = append(g.Polygons, compact.PolygonGeometryLatLngs{Loops: append([]int{}, p.Loops...), Points: toLLs(p.Points)})
		}
		return g
	default:
		g := &compact.AreaGeometryMixed{}
		for _, p := range c.Polys {
			if len(p.Refs) > 0 {
				g.Polygons = append(g.Polygons, compact.PolygonGeometryMixed{References: compact.PolygonGeometryReferences{Paths: toRefs(p.Refs)}})
			} else {
				g.Polygons = append(g.Polygons, compact.PolygonGeometryMixed{LatLngs: compact.PolygonGeometryLatLngs{Loops: append([]int{}, p.Loops...), Points: toLLs(p.Points)}})
			}
		}
		return g
	}
}

type geomNF struct {
	Mode   string `json:"mode"`
	Splits []int  `json:"splits"`
	Refs   []Ref  `json:"refs"`
	Polys  []Poly `json:"polys"`
}

func ints(v []int) []int { return append([]int{}, v...) }

func fromGeometry(g compact.AreaGeometry) geomNF {
	switch x := g.(type) {
	case *compact.AreaGeometryReferences:
		return geomNF{Mode: "refs", Splits: ints(x.Polygons), Refs: fromRefs(x.Paths), Polys: []Poly{}}
	case *compact.AreaGeometryLatLngs:
		nf := geomNF{Mode: "latlngs", Splits: []int{}, Refs: []Ref{}, Polys: []Poly{}}
		for _, p := range x.Polygons {
			nf.Polys = append(nf.Polys, Poly{Loops: ints(p.Loops), Points: fromLLs(p.Points)})
		}
		return nf
	case *compact.AreaGeometryMixed:
		nf := geomNF{Mode: "mixed", Splits: []int{}, Refs: []Ref{}, Polys: []Poly{}}
		for _, p := range x.Polygons {
			if len(p.References.Paths) > 0 {
				nf.Polys = append(nf.Polys, Poly{Refs: fromRefs(p.References.Paths)})
			} else {
				nf.Polys = append(nf.Polys, Poly{Loops: ints(p.LatLngs.Loops), Points: fromLLs(p.LatLngs.Points)})
			}
		}
		return nf
	}
	return geomNF{Mode: fmt.Sprintf("%T", g)}
}

func sortedRefs(rs []Ref) []Ref {
	out := append([]Ref{}, rs...)
	sort.Slice(out, func(i, j int) bool {
		ti, tj := tns(out[i]), tns(out[j])
		if ti == tj {
			return out[i].V < out[j].V
		}
		return ti < tj
	})
	return out
}

func js(v interface{}) string {
	b, _ := json.Marshal(v)
	return string(b)
}

// same compares normal forms, treating nil and empty lists alike.
func same(a, b interface{}) bool {
	norm := func(v interface{}) string {
		s := js(v)
		var x interface{}
		json.Unmarshal([]byte(s), &x)
		if x == nil {
			x = []interface{}{}
		}
		return js(strip(x))
	}
	return norm(a) == norm(b)
}

func strip(v interface{}) interface{} {
	switch x := v.(type) {
	case map[string]interface{}:
		out := map[string]interface{}{}
		for k, e := range x {
			s := strip(e)
			if s == nil {
				continue
			}
			if l, ok := s.([]interface{}); ok && len(l) == 0 {
				continue
			}
			out[k] = s
		}
		return out
	case []interface{}:
		out := make([]interface{}, 0, len(x))
		for _, e := range x {
			out = append(out, strip(e))
		}
		return out
	}
	return v
}

// ---------------------------------------------------------------------------
// the round trip

const bufLen = 1 << 16

// trip marshals with m into a buffer pre-filled with fill bytes, then
// unmarshals with u; written and read byte counts must agree, and nothing may
// be written beyond the reported length.
func trip(what string, fill byte, m func([]byte) int, u func([]byte) int) error {
	buf := make([]byte, bufLen)
	for i := range buf {
		buf[i] = fill
	}
	n := m(buf)
	for i := n; i < n+64; i++ {
		if buf[i] != fill {
			return fmt.Errorf("%s: Marshal reported %d bytes but wrote at offset %d", what, n, i)
		}
	}
	r := u(buf)
	if r != n {
		return fmt.Errorf("%s: Marshal wrote %d bytes, Unmarshal consumed %d", what, n, r)
	}
	return nil
}

func nssOf(c Case) *compact.Namespaces {
	var n compact.Namespaces
	for i := range c.NSS {
		n[i] = compact.Namespace(c.NSS[i])
	}
	return &n
}

func dirtyTags() compact.Tags {
	i := compact.Int(99)
	return compact.Tags{{Key: 7, Value: &i}, {Key: 8, Value: &compact.LatLngs{{LatE7: 1, LngE7: 2}}}, {Key: 9, Value: &i}, {Key: 9, Value: &i}, {Key: 9, Value: &i}, {Key: 9, Value: &i}, {Key: 9, Value: &i}}
}

func dirtyRefs() compact.References {
	return compact.References{{TypeAndNamespace: 77, Value: 1}, {TypeAndNamespace: 78, Value: 2}, {TypeAndNamespace: 79, Value: 3}, {}, {}, {}, {}, {}, {}, {}, {}, {}, {}, {}}
}

func check(c Case) vlib.Outcome {
	out := vlib.Outcome{Classes: []string{c.Kind}}
	primary := tns(c.Primary)
	nss := nssOf(c)
	elements, special := 0, false
	countRefs := func(rs []Ref, p compact.TypeAndNamespace) {
		elements += len(rs)
		for _, r := range rs {
			if tns(r) != p || r.V >= 1<<63 {
				special = true
			}
		}
	}
	fail := func(err error) vlib.Outcome { return vlib.Outcome{Err: err} }
	for _, dirty := range []bool{false, true} {
		label := c.Kind
		if dirty {
			label += " (decoding into a reused value)"
		}
		switch c.Kind {
		case "tags":
			in := toTags(c.Tags)
			var got compact.Tags
			if dirty {
				got = dirtyTags()
			}
			if err := trip(label, c.Fill, func(b []byte) int { return in.Marshal(primary, b) }, func(b []byte) int { return got.Unmarshal(primary, b) }); err != nil {
				return fail(err)
			}
			if !same(fromTags(got), c.Tags) {
				return vlib.Fail("%s: decoded %s, encoded %s", label, js(fromTags(got)), js(c.Tags))
			}
			elements = len(c.Tags)
			for _, t := range c.Tags {
				countRefs(t.Val.Refs, primary)
			}
		case "reference":
			if c.Ref == nil {
				return vlib.Outcome{Skip: true}
			}
			in := toRef(*c.Ref)
			got := compact.Reference{TypeAndNamespace: 99, Value: 99}
			if err := trip(label, c.Fill, func(b []byte) int { return in.Marshal(primary, b) }, func(b []byte) int { return got.Unmarshal(primary, b) }); err != nil {
				return fail(err)
			}
			if got != in {
				return vlib.Fail("%s: decoded %+v, encoded %+v (primary %d)", label, got, in, primary)
			}
			buf := make([]byte, 32)
			n := in.Marshal(primary, buf)
			if l := compact.MarshalledReference(buf).Length(); l != n && tns(*c.Ref) != primary {
				return vlib.Fail("%s: MarshalledReference.Length() = %d, wrote %d", label, l, n)
			}
			countRefs([]Ref{*c.Ref}, primary)
			elements = 2
		case "references":
			in := toRefs(c.Refs)
			var got compact.References
			if dirty {
				got = dirtyRefs()
			}
			if err := trip(label, c.Fill, func(b []byte) int { return in.Marshal(primary, b) }, func(b []byte) int { return got.Unmarshal(primary, b) }); err != nil {
				return fail(err)
			}
			if !same(fromRefs(got), c.Refs) {
				return vlib.Fail("%s: decoded %s, encoded %s (primary %d)", label, js(fromRefs(got)), js(c.Refs), primary)
			}
			buf := make([]byte, bufLen)
			in.Marshal(primary, buf)
			if l := compact.MarshalledReferences(buf).Len(); l != len(c.Refs) {
				return vlib.Fail("%s: MarshalledReferences.Len() = %d, encoded %d", label, l, len(c.Refs))
			}
			countRefs(c.Refs, primary)
		case "latlngs":
			in := toLLs(c.LLs)
			var got compact.LatLngs
			if dirty {
				got = compact.LatLngs{{LatE7: 5, LngE7: 6}, {}, {}, {}, {}, {}, {}, {}, {}, {}, {}, {}, {}, {}, {}}
			}
			if err := trip(label, c.Fill, func(b []byte) int { return in.Marshal(primary, b) }, func(b []byte) int { return got.Unmarshal(primary, b) }); err != nil {
				return fail(err)
			}
			if !same(fromLLs(got), c.LLs) {
				return vlib.Fail("%s: decoded %s, encoded %s", label, js(fromLLs(got)), js(c.LLs))
			}
			elements = len(c.LLs)
			special = elements >= 2
		case "mixed":
			in := toMixed(c.Mixed)
			var got compact.ReferencesAndLatLngs
			if dirty {
				got = compact.ReferencesAndLatLngs{{Reference: compact.Reference{TypeAndNamespace: 5, Value: 5}, LatLng: compact.LatLng{LatE7: 9, LngE7: 9}}, {}, {}, {}, {}, {}, {}, {}, {}, {}, {}, {}, {}, {}}
			}
			if err := trip(label, c.Fill, func(b []byte) int { return in.Marshal(primary, b) }, func(b []byte) int { return got.Unmarshal(primary, b) }); err != nil {
				return fail(err)
			}
			// A reused element keeps stale fields of the other kind; compare what the accessor semantics see.
			cleaned := make(compact.ReferencesAndLatLngs, len(got))
			for i, g := range got {
				if i < len(c.Mixed) && c.Mixed[i].Ref != nil {
					cleaned[i] = compact.ReferenceAndLatLng{Reference: g.Reference}
				} else {
					cleaned[i] = g
				}
			}
			if !same(fromMixed(cleaned), c.Mixed) {
				return vlib.Fail("%s: decoded %s, encoded %s (primary %d)", label, js(fromMixed(cleaned)), js(c.Mixed), primary)
			}
			elements = len(c.Mixed)
			for _, m := range c.Mixed {
				if m.Ref != nil {
					countRefs([]Ref{*m.Ref}, primary)
					elements--
				}
			}
		case "bits":
			in := compact.Bits(c.Bits)
			var got compact.Bits
			if dirty {
				got = compact.Bits{true, true, true, true, true, true, true, true, true, true, true, true, true, true, true, true, true, true, true, true, true, true, true, true, true, true, true, true, true, true, true, true, true, true, true, true, true, true, true, true, true, true}
			}
			if err := trip(label, c.Fill, func(b []byte) int { return in.Marshal(b) }, func(b []byte) int { return got.Unmarshal(b) }); err != nil {
				return fail(err)
			}
			if !same([]bool(got), c.Bits) {
				return vlib.Fail("%s: decoded %v, encoded %v", label, got, c.Bits)
			}
			elements, special = len(c.Bits), len(c.Bits) > 8
		case "members":
			in := toMembers(c.Members)
			var got compact.Members
			if dirty {
				got = compact.Members{{Type: 3, Role: 3, ID: compact.Reference{TypeAndNamespace: 3, Value: 3}}}
			}
			if err := trip(label, c.Fill, func(b []byte) int { return in.Marshal(primary, b) }, func(b []byte) int { return got.Unmarshal(primary, b) }); err != nil {
				return fail(err)
			}
			if !same(fromMembers(got), c.Members) {
				return vlib.Fail("%s: decoded %s, encoded %s (primary %d)", label, js(fromMembers(got)), js(c.Members), primary)
			}
			buf := make([]byte, bufLen)
			in.Marshal(primary, buf)
			if l := compact.MarshalledMembers(buf).Len(); l != len(c.Members) {
				return vlib.Fail("%s: MarshalledMembers.Len() = %d, encoded %d", label, l, len(c.Members))
			}
			for _, m := range c.Members {
				countRefs([]Ref{m.ID}, primary)
			}
		case "area-refs", "area-latlngs", "area-mixed":
			mode := c.Kind[len("area-"):]
			in := toGeometry(mode, c)
			want := fromGeometry(in)
			// through the polymorphic decoder
			var got compact.AreaGeometry
			if err := trip(label+" via UnmarshalAreaGeometry", c.Fill, func(b []byte) int { return in.Marshal(primary, b) }, func(b []byte) int {
				var n int
				got, n = compact.UnmarshalAreaGeometry(primary, b)
				return n
			}); err != nil {
				return fail(err)
			}
			if !same(fromGeometry(got), want) {
				return vlib.Fail("%s via UnmarshalAreaGeometry: decoded %s, encoded %s", label, js(fromGeometry(got)), js(want))
			}
			// through the type's own Unmarshal
			var own compact.AreaGeometry
			var u func([]byte) int
			switch mode {
			case "refs":
				g := &compact.AreaGeometryReferences{}
				if dirty {
					g.Polygons, g.Paths = []int{4, 5, 6, 7, 8, 9, 10}, dirtyRefs()
				}
				own, u = g, func(b []byte) int { return g.Unmarshal(primary, b) }
				if g.Len() < 0 {
					return vlib.Fail("negative Len")
				}
			case "latlngs":
				g := &compact.AreaGeometryLatLngs{}
				if dirty {
					g.Polygons = []compact.PolygonGeometryLatLngs{{Loops: []int{1, 2, 3, 4, 5, 6, 7}, Points: compact.LatLngs{{LatE7: 1, LngE7: 1}, {}, {}, {}, {}, {}, {}, {}, {}, {}}}, {}, {}, {}, {}, {}}
				}
				own, u = g, func(b []byte) int { return g.Unmarshal(primary, b) }
			default:
				g := &compact.AreaGeometryMixed{}
				if dirty {
					g.Polygons = []compact.PolygonGeometryMixed{{LatLngs: compact.PolygonGeometryLatLngs{Loops: []int{1, 2, 3, 4, 5, 6}, Points: compact.LatLngs{{LatE7: 1, LngE7: 1}, {}, {}, {}, {}, {}, {}, {}, {}, {}}}}, {}, {}, {}, {}}
				}
				own, u = g, func(b []byte) int { return g.Unmarshal(primary, b) }
			}
			if err := trip(label+" via its own Unmarshal", c.Fill, func(b []byte) int { return in.Marshal(primary, b) }, u); err != nil {
				return fail(err)
			}
			gotOwn := fromGeometry(own)
			if mode == "mixed" && dirty {
				// reused polygons keep the stale half of the other kind; Len/PathIDs/Polygon semantics depend on References only
				for i := range gotOwn.Polys {
					if i < len(want.Polys) && len(want.Polys[i].Refs) == 0 && len(gotOwn.Polys[i].Refs) == 0 {
						continue
					}
				}
			}
			if !same(gotOwn, want) {
				return vlib.Fail("%s via its own Unmarshal: decoded %s, encoded %s", label, js(gotOwn), js(want))
			}
			if in.Len() != got.Len() {
				return vlib.Fail("%s: Len() %d before, %d after", label, in.Len(), got.Len())
			}
			countRefs(c.Refs, primary)
			for _, p := range c.Polys {
				countRefs(p.Refs, primary)
				elements += len(p.Points)
				if len(p.Points) > 2 {
					special = true
				}
			}
			elements += len(c.Splits)
		case "commonpoint":
			if c.Ref == nil {
				return vlib.Outcome{Skip: true}
			}
			in := compact.CommonPoint{Tags: toTags(c.Tags), Path: toRef(*c.Ref)}
			var got compact.CommonPoint
			if dirty {
				got.Tags = dirtyTags()
			}
			if err := trip(label, c.Fill, func(b []byte) int { return in.Marshal(nss, b) }, func(b []byte) int { return got.Unmarshal(nss, b) }); err != nil {
				return fail(err)
			}
			if !same(fromTags(got.Tags), c.Tags) || got.Path != in.Path {
				return vlib.Fail("%s: decoded tags %s path %+v, encoded tags %s path %+v", label, js(fromTags(got.Tags)), got.Path, js(c.Tags), in.Path)
			}
			// the two-step construction used by the builder
			buf := make([]byte, bufLen)
			tagsOnly := make([]byte, bufLen)
			tn := in.Tags.Marshal(compact.TypeAndNamespaceInvalid, tagsOnly)
			n := compact.CombinePointAndPath(tagsOnly[:tn], nss, in.Path, buf)
			var got2 compact.CommonPoint
			if r := got2.Unmarshal(nss, buf); r != n || !same(fromTags(got2.Tags), c.Tags) || got2.Path != in.Path {
				return vlib.Fail("%s: CombinePointAndPath wrote %d bytes, decoded %d bytes path %+v (encoded %+v)", label, n, r, got2.Path, in.Path)
			}
			elements = len(c.Tags) + 1
			countRefs([]Ref{*c.Ref}, compact.CombineTypeAndNamespace(b6.FeatureTypePath, nss[1]))
		case "fullpoint":
			in := compact.FullPoint{Tags: toTags(c.Tags), PointReferences: compact.PointReferences{Paths: toRefs(c.Refs), Relations: toRefs(c.Refs2)}}
			var got compact.FullPoint
			if dirty {
				got.Tags, got.Paths, got.Relations = dirtyTags(), dirtyRefs(), dirtyRefs()
			}
			if err := trip(label, c.Fill, func(b []byte) int { return in.Marshal(nss, b) }, func(b []byte) int { return got.Unmarshal(nss, b) }); err != nil {
				return fail(err)
			}
			if !same(fromTags(got.Tags), c.Tags) || !same(fromRefs(got.Paths), sortedRefs(c.Refs)) || !same(fromRefs(got.Relations), sortedRefs(c.Refs2)) {
				return vlib.Fail("%s: decoded tags %s paths %s relations %s; encoded tags %s paths %s relations %s (sorted)", label, js(fromTags(got.Tags)), js(fromRefs(got.Paths)), js(fromRefs(got.Relations)), js(c.Tags), js(sortedRefs(c.Refs)), js(sortedRefs(c.Refs2)))
			}
			elements = len(c.Tags)
			countRefs(c.Refs, compact.CombineTypeAndNamespace(b6.FeatureTypePath, nss[1]))
			countRefs(c.Refs2, compact.CombineTypeAndNamespace(b6.FeatureTypeRelation, nss[3]))
		case "path":
			in := compact.Path{Tags: toTags(c.Tags), Areas: toRefs(c.Refs), Relations: toRefs(c.Refs2)}
			var got compact.Path
			if dirty {
				got.Tags, got.Areas, got.Relations = dirtyTags(), dirtyRefs(), dirtyRefs()
			}
			if err := trip(label, c.Fill, func(b []byte) int { return in.Marshal(nss, b) }, func(b []byte) int { return got.Unmarshal(nss, b) }); err != nil {
				return fail(err)
			}
			if !same(fromTags(got.Tags), c.Tags) || !same(fromRefs(got.Areas), sortedRefs(c.Refs)) || !same(fromRefs(got.Relations), c.Refs2) {
				return vlib.Fail("%s (namespaces %v): decoded tags %s areas %s relations %s; encoded tags %s areas %s (sorted) relations %s", label, c.NSS, js(fromTags(got.Tags)), js(fromRefs(got.Areas)), js(fromRefs(got.Relations)), js(c.Tags), js(sortedRefs(c.Refs)), js(c.Refs2))
			}
			elements = len(c.Tags)
			countRefs(c.Refs, compact.CombineTypeAndNamespace(b6.FeatureTypeArea, nss[2]))
			countRefs(c.Refs2, compact.CombineTypeAndNamespace(b6.FeatureTypeRelation, nss[3]))
		case "area":
			if len(c.Strings) != 1 {
				return vlib.Outcome{Skip: true}
			}
			in := compact.Area{Tags: toTags(c.Tags), Polygons: toGeometry(c.Strings[0], c), Relations: toRefs(c.Refs2)}
			want := fromGeometry(in.Polygons)
			var got compact.Area
			if dirty {
				got.Tags, got.Relations = dirtyTags(), dirtyRefs()
			}
			if err := trip(label, c.Fill, func(b []byte) int { return in.Marshal(nss, b) }, func(b []byte) int { return got.Unmarshal(nss, b) }); err != nil {
				return fail(err)
			}
			if !same(fromTags(got.Tags), c.Tags) || !same(fromGeometry(got.Polygons), want) || !same(fromRefs(got.Relations), c.Refs2) {
				return vlib.Fail("%s (namespaces %v): decoded tags %s geometry %s relations %s; encoded tags %s geometry %s relations %s", label, c.NSS, js(fromTags(got.Tags)), js(fromGeometry(got.Polygons)), js(fromRefs(got.Relations)), js(c.Tags), js(want), js(c.Refs2))
			}
			buf := make([]byte, bufLen)
			in.Marshal(nss, buf)
			if l := compact.MarshalledArea(buf).Len(); l != in.Polygons.Len() {
				return vlib.Fail("%s: MarshalledArea.Len() = %d, geometry Len() = %d", label, l, in.Polygons.Len())
			}
			pg := compact.MarshalledArea(buf).UnmarshalPolygons(compact.CombineTypeAndNamespace(b6.FeatureTypePath, nss[1]))
			if !same(fromGeometry(pg), want) {
				return vlib.Fail("%s: MarshalledArea.UnmarshalPolygons decoded %s, encoded %s", label, js(fromGeometry(pg)), js(want))
			}
			elements = len(c.Tags) + len(c.Splits)
			countRefs(c.Refs, compact.CombineTypeAndNamespace(b6.FeatureTypePath, nss[1]))
			countRefs(c.Refs2, compact.CombineTypeAndNamespace(b6.FeatureTypeRelation, nss[3]))
			for _, p := range c.Polys {
				countRefs(p.Refs, compact.CombineTypeAndNamespace(b6.FeatureTypePath, nss[1]))
				elements += len(p.Points)
			}
		case "relation":
			pt := b6.FeatureType(c.Primary.T)
			if c.Primary.T < 0 || c.Primary.T > 3 {
				return vlib.Outcome{Skip: true}
			}
			in := compact.Relation{Tags: toTags(c.Tags), Members: toMembers(c.Members), Relations: toRefs(c.Refs2)}
			var got compact.Relation
			if dirty {
				got.Tags, got.Relations = dirtyTags(), dirtyRefs()
			}
			if err := trip(label, c.Fill, func(b []byte) int { return in.Marshal(pt, nss, b) }, func(b []byte) int { return got.Unmarshal(pt, nss, b) }); err != nil {
				return fail(err)
			}
			if !same(fromTags(got.Tags), c.Tags) || !same(fromMembers(got.Members), c.Members) || !same(fromRefs(got.Relations), c.Refs2) {
				return vlib.Fail("%s (primary %v namespaces %v): decoded tags %s members %s relations %s; encoded tags %s members %s relations %s", label, pt, c.NSS, js(fromTags(got.Tags)), js(fromMembers(got.Members)), js(fromRefs(got.Relations)), js(c.Tags), js(c.Members), js(c.Refs2))
			}
			buf := make([]byte, bufLen)
			in.Marshal(pt, nss, buf)
			if l := compact.MarshalledRelation(buf).Len(); l != len(c.Members) {
				return vlib.Fail("%s: MarshalledRelation.Len() = %d, %d members encoded", label, l, len(c.Members))
			}
			var ms compact.Members
			compact.MarshalledRelation(buf).UnmarshalMembers(pt, nss, &ms)
			if !same(fromMembers(ms), c.Members) {
				return vlib.Fail("%s: MarshalledRelation.UnmarshalMembers decoded %s, encoded %s", label, js(fromMembers(ms)), js(c.Members))
			}
			elements = len(c.Tags)
			for _, m := range c.Members {
				countRefs([]Ref{m.ID}, compact.CombineTypeAndNamespace(pt, nss[c.Primary.T]))
			}
			countRefs(c.Refs2, compact.CombineTypeAndNamespace(b6.FeatureTypeRelation, nss[3]))
		case "namespaces":
			var nt compact.NamespaceTable
			list := make([]b6.Namespace, 0, len(c.Strings))
			for _, s := range c.Strings {
				if s == "" {
					return vlib.Outcome{Skip: true}
				}
				list = append(list, b6.Namespace(s))
			}
			nt.FillFromNamespaces(list)
			var header pb.CompactHeaderProto
			nt.FillProto(&header)
			var back compact.NamespaceTable
			back.FillFromProto(&header)
			for _, ns := range list {
				e := nt.Encode(ns)
				if back.Encode(ns) != e || back.Decode(e) != ns || nt.Decode(e) != ns {
					return vlib.Fail("namespace table: %q encodes to %d, after the proto round trip to %d and decodes to %q", ns, e, back.Encode(ns), back.Decode(e))
				}
				for _, other := range list {
					if (ns < other) != (nt.Encode(ns) < nt.Encode(other)) {
						return vlib.Fail("namespace table is not order preserving: %q=%d %q=%d", ns, nt.Encode(ns), other, nt.Encode(other))
					}
				}
			}
			if _, ok := nt.MaybeEncode("not/present"); ok {
				return vlib.Fail("MaybeEncode of an absent namespace succeeded")
			}
			got := compact.Namespaces{9, 9, 9, 9}
			if err := trip("Namespaces", c.Fill, func(b []byte) int { return nss.Marshal(b) }, func(b []byte) int { return got.Unmarshal(b) }); err != nil {
				return fail(err)
			}
			if got != *nss {
				return vlib.Fail("Namespaces: decoded %v, encoded %v", got, *nss)
			}
			fb := compact.FeatureBlockHeader{FeatureType: b6.FeatureType(c.Primary.T), Namespaces: *nss}
			var gfb compact.FeatureBlockHeader
			if err := trip("FeatureBlockHeader", c.Fill, func(b []byte) int { return fb.Marshal(b) }, func(b []byte) int { return gfb.Unmarshal(b) }); err != nil {
				return fail(err)
			}
			if gfb != fb {
				return vlib.Fail("FeatureBlockHeader: decoded %+v, encoded %+v", gfb, fb)
			}
			elements, special = len(list), len(list) >= 2
		case "tokenmap":
			if len(c.Ints) != len(c.Strings) {
				return vlib.Outcome{Skip: true}
			}
			if dirty {
				continue
			}
			enc := compact.NewTokenMapEncoder()
			want := map[string][]int{}
			for i, token := range c.Strings {
				enc.Add(token, int(c.Ints[i]))
				want[token] = append(want[token], int(c.Ints[i]))
			}
			var w encoding.Buffer
			const offset = 3
			end, err := enc.Write(&w, offset)
			if err != nil {
				return vlib.Fail("TokenMapEncoder.Write: %v", err)
			}
			if int(end)-offset != enc.Length() {
				return vlib.Fail("TokenMapEncoder.Write end %d - offset %d != Length() %d", end, offset, enc.Length())
			}
			data := w.Bytes()
			if len(data) < int(end) {
				data = append(data, make([]byte, int(end)-len(data))...)
			}
			var tm compact.TokenMap
			if n := tm.Unmarshal(data[offset:]); n != enc.Length() {
				return vlib.Fail("TokenMap.Unmarshal consumed %d bytes, encoder wrote %d", n, enc.Length())
			}
			tokens := make([]string, 0, len(want))
			for token := range want {
				tokens = append(tokens, token)
			}
			sort.Strings(tokens)
			for _, token := range tokens {
				found := map[int]int{}
				it := tm.FindPossibleIndices(token)
				for {
					v, ok := it.Next()
					if !ok {
						break
					}
					found[v]++
				}
				for _, index := range want[token] {
					if found[index] == 0 {
						return vlib.Fail("token map: index %d added for token %q is not among its possible indices %v", index, token, found)
					}
				}
			}
			elements, special = len(c.Strings), len(c.Strings) > 2
		case "postinglistheader":
			if len(c.Strings) != 1 || len(c.Ints) != 1 {
				return vlib.Outcome{Skip: true}
			}
			in := compact.PostingListHeader{Token: c.Strings[0], Features: int(c.Ints[0])}
			for _, r := range c.Refs {
				in.Namespaces = append(in.Namespaces, compact.NamespaceIndex{TypeAndNamespace: tns(r), Index: int(r.V)})
			}
			var got compact.PostingListHeader
			if dirty {
				got.Namespaces = compact.NamespaceIndicies{{TypeAndNamespace: 1, Index: 1}, {}, {}, {}, {}, {}, {}, {}}
				got.Token = "stale"
			}
			if err := trip(label, c.Fill, func(b []byte) int { return in.Marshal(b) }, func(b []byte) int { return got.Unmarshal(b) }); err != nil {
				return fail(err)
			}
			if got.Token != in.Token || got.Features != in.Features || !same(got.Namespaces, in.Namespaces) {
				return vlib.Fail("%s: decoded %+v, encoded %+v", label, got, in)
			}
			buf := make([]byte, bufLen)
			in.Marshal(buf)
			if compact.PostingListHeaderToken(buf) != in.Token || !compact.PostingListHeaderTokenEquals(buf, in.Token) || compact.PostingListHeaderTokenEquals(buf, in.Token+"x") {
				return vlib.Fail("%s: token accessors disagree with token %q", label, in.Token)
			}
			elements, special = len(c.Refs)+1, len(c.Refs) >= 2
		case "headers":
			if len(c.Ints) != 8 {
				return vlib.Outcome{Skip: true}
			}
			h := compact.Header{Magic: c.Ints[0], VersionOffset: encoding.Offset(c.Ints[1]), HeaderProtoOffset: encoding.Offset(c.Ints[2]), StringsOffset: encoding.Offset(c.Ints[3]), BlockOffset: encoding.Offset(c.Ints[4])}
			var gh compact.Header
			if err := trip("Header", c.Fill, func(b []byte) int { return h.Marshal(b) }, func(b []byte) int { return gh.Unmarshal(b) }); err != nil {
				return fail(err)
			}
			bh := compact.BlockHeader{Length: c.Ints[5], Type: compact.BlockType(c.Ints[6])}
			var gbh compact.BlockHeader
			if err := trip("BlockHeader", c.Fill, func(b []byte) int { return bh.Marshal(b) }, func(b []byte) int { return gbh.Unmarshal(b) }); err != nil {
				return fail(err)
			}
			if gh != h || gbh != bh {
				return vlib.Fail("headers: decoded %+v %+v, encoded %+v %+v", gh, gbh, h, bh)
			}
			ni := compact.NamespaceIndex{TypeAndNamespace: compact.TypeAndNamespace(c.Ints[7]), Index: int(c.Ints[6] >> 1)}
			var gni compact.NamespaceIndex
			if err := trip("NamespaceIndex", c.Fill, func(b []byte) int { return ni.Marshal(b) }, func(b []byte) int { return gni.Unmarshal(b) }); err != nil {
				return fail(err)
			}
			if gni != ni {
				return vlib.Fail("NamespaceIndex: decoded %+v, encoded %+v", gni, ni)
			}
			elements, special = 8, true
		case "string":
			if len(c.Strings) != 1 {
				return vlib.Outcome{Skip: true}
			}
			s := c.Strings[0]
			var got string
			if err := trip("string", c.Fill, func(b []byte) int { return compact.MarshalString(s, b) }, func(b []byte) int {
				var n int
				got, n = compact.UnmarshalString(b)
				return n
			}); err != nil {
				return fail(err)
			}
			buf := make([]byte, bufLen)
			compact.MarshalString(s, buf)
			if got != s || !compact.MarshalledStringEquals(buf, s) || compact.MarshalledStringEquals(buf, s+"y") {
				return vlib.Fail("string %q decoded as %q (MarshalledStringEquals %v)", s, got, compact.MarshalledStringEquals(buf, s))
			}
			elements, special = len(s), len(s) > 1
		default:
			return vlib.Outcome{Skip: true}
		}
	}
	out.NonTrivial = elements >= 2 && special
	return out
}

func TestProp(t *testing.T) {
	vlib.Run(t, vlib.Config{ID: "C11", Name: "record-codecs",
		Rule: "one generated value per compact record kind (tags with int/point/lat-lng list/reference list/mixed values, reference, reference list, lat-lng list, mixed list, bit set, members, the three area geometries through both decoders, common point, full point, path, area, relation under generated Namespaces incl. non-OSM ones, namespace table, token map, posting-list header, file/block headers, strings); references use the primary or another type+namespace and boundary-biased 64-bit values; each value is marshalled into a buffer pre-filled with a generated byte and decoded into a fresh and into a reused (dirty) value; oracle: decoded == encoded and bytes read == bytes written; non-trivial = >= 2 elements and a non-primary or bit-63 reference (or the kind's own size rule)"},
		gen_, check)
}
