// C18: exported change files reproduce the edited world.
package c18

import (
	"bytes"
	"fmt"
	"testing"

	"diagonal.works/b6"
	"diagonal.works/b6/ingest"
	"pgregory.net/rapid"
	"verif/vlib"
	"verif/wm"
)

type TagEdit struct {
	Target int    `json:"target"` // index into base features followed by added features
	Remove bool   `json:"remove,omitempty"`
	Key    string `json:"key"`
	Value  string `json:"value,omitempty"`
}

type Case struct {
	Base  []wm.FeatureS `json:"base"`
	Added []wm.FeatureS `json:"added"` // added to the mutable world in this order, where valid
	Edits []TagEdit     `json:"edits"`
}

var nsA = []string{string(b6.NamespaceOSMNode), string(b6.NamespaceOSMWay), string(b6.NamespaceOSMRelation)}

var keys = []string{"name", "colour", "#amenity", "#highway", "@wikidata", "addr:street"}

// values that look like something else to a YAML reader or to b6's own string conversion
var safeValues = []string{"cafe", "two words", "42", "-7", "3.5", "1e5", "0x10", ".5", "/n/1",
	"", " yes", "yes ", "true", "no", "Null", "- x", "a: b", "'q'", "\"q\"", "line\nbreak", "é日本", "#hash", "[1, 2]", "{a: b}", "2021-01-01", "1_000", "0o17", "+1", "NaN", "%", "|", ">", "51.5 -0.1", "point/openstreetmap.org"}

// values caught by the known findings: they end a case early, so only one case in eight draws from them
var troubleValues = []string{"51.5,-0.1", "51.500000, -0.100000", "point/openstreetmap.org/node/1", "a;b", "null", "~"}

var values = safeValues

func shift(fs []wm.FeatureS, by uint64) []wm.FeatureS {
	sh := func(id wm.FID) wm.FID { id.V += by; return id }
	out := make([]wm.FeatureS, 0, len(fs))
	for _, f := range fs {
		g := f.Clone()
		g.ID = sh(g.ID)
		for i := range g.Path {
			if g.Path[i].Ref != nil {
				r := sh(*g.Path[i].Ref)
				g.Path[i].Ref = &r
			}
		}
		for i := range g.Polys {
			p := g.Polys[i]
			p.Paths = append([]wm.FID{}, p.Paths...)
			for j := range p.Paths {
				p.Paths[j] = sh(p.Paths[j])
			}
			g.Polys[i] = p
		}
		for i := range g.Members {
			g.Members[i].ID = sh(g.Members[i].ID)
		}
		if g.Point != nil {
			ll := wm.LL{Lat: g.Point.Lat + int32(by)*13, Lng: g.Point.Lng + int32(by)*17}
			g.Point = &ll
		}
		out = append(out, g)
	}
	return out
}

func genCollection(t *rapid.T, i int, ids []wm.FID) wm.FeatureS {
	f := wm.FeatureS{ID: wm.FID{T: 4, NS: "diagonal.works/ns/test", V: uint64(7000 + i)}, Tags: []wm.TagS{{K: "#kind", V: "list"}}}
	kind := rapid.IntRange(0, 2).Draw(t, "keykind")
	for j, n := 0, rapid.IntRange(0, 5).Draw(t, "nitems"); j < n; j++ {
		var k wm.CollEl
		switch kind {
		case 0:
			v := rapid.IntRange(-3, 9).Draw(t, "ikey")
			k.Int = &v
		case 1:
			v := rapid.SampledFrom([]string{"a", "b", "c", "42", "", "z z"}).Draw(t, "skey")
			k.Str = &v
		default:
			v := rapid.SampledFrom(ids).Draw(t, "idkey")
			k.ID = &v
		}
		var val wm.CollEl
		if rapid.Bool().Draw(t, "intvalue") {
			v := rapid.IntRange(-2, 100).Draw(t, "ivalue")
			val.Int = &v
		} else {
			v := rapid.SampledFrom(values).Draw(t, "svalue")
			val.Str = &v
		}
		f.Keys = append(f.Keys, k)
		f.Values = append(f.Values, val)
	}
	return f
}

func gen(t *rapid.T) Case {
	values = safeValues
	if rapid.IntRange(0, 7).Draw(t, "trouble") == 0 {
		values = append(append([]string{}, safeValues...), troubleValues...)
	}
	typed := [][]string{{nsA[0]}, {nsA[1]}, {nsA[1]}, {nsA[2]}}
	cfg := wm.GenConfig{MaxPoints: 4, MaxPaths: 2, MaxLoops: 1, MaxAreas: 2, MaxRelations: 2, Namespaces: nsA, TypedNamespaces: typed, LatLngAreas: true, MixedPaths: true}
	c := Case{Base: wm.GenSet(t, cfg).Features}
	c.Added = shift(wm.GenSet(t, cfg).Features, 1000)
	var basePoints, all []wm.FID
	for _, f := range c.Base {
		all = append(all, f.ID)
		if f.Point != nil {
			basePoints = append(basePoints, f.ID)
		}
	}
	for _, f := range c.Added {
		all = append(all, f.ID)
	}
	// added features over base features
	if len(basePoints) >= 2 && rapid.Bool().Draw(t, "pathoverbase") {
		a, b := basePoints[0], basePoints[len(basePoints)-1]
		c.Added = append(c.Added, wm.FeatureS{ID: wm.FID{T: 1, NS: nsA[1], V: 5000}, Tags: []wm.TagS{{K: "#highway", V: "added"}}, Path: []wm.PathEl{{Ref: &a}, {Ref: &b}}})
		all = append(all, wm.FID{T: 1, NS: nsA[1], V: 5000})
	}
	if rapid.Bool().Draw(t, "relationoverbase") {
		var ms []wm.MemberS
		for i, n := 0, rapid.IntRange(1, 3).Draw(t, "nmembers"); i < n; i++ {
			ms = append(ms, wm.MemberS{ID: rapid.SampledFrom(all).Draw(t, "member"), Role: rapid.SampledFrom([]string{"", "stop", "42", "a: b"}).Draw(t, "role")})
		}
		c.Added = append(c.Added, wm.FeatureS{ID: wm.FID{T: 3, NS: nsA[2], V: 5000}, Tags: []wm.TagS{{K: "type", V: "route"}}, Members: ms})
	}
	for i, n := 0, rapid.IntRange(0, 2).Draw(t, "ncollections"); i < n; i++ {
		c.Added = append(c.Added, genCollection(t, i, all))
	}
	c.Added = wm.SortForInsertion(c.Added)
	total := len(c.Base) + len(c.Added)
	for i, n := 0, rapid.IntRange(0, 10).Draw(t, "nedits"); i < n && total > 0; i++ {
		e := TagEdit{Target: rapid.IntRange(0, total-1).Draw(t, "target"), Key: rapid.SampledFrom(keys).Draw(t, "key")}
		if e.Remove = rapid.IntRange(0, 3).Draw(t, "remove") == 0; !e.Remove {
			e.Value = rapid.SampledFrom(values).Draw(t, "value")
		}
		c.Edits = append(c.Edits, e)
	}
	// tag values of added features come from the same pool
	for i := range c.Added {
		for j := range c.Added[i].Tags {
			if rapid.IntRange(0, 2).Draw(t, "hostile") == 0 {
				c.Added[i].Tags[j].V = rapid.SampledFrom(values).Draw(t, "addedvalue")
			}
		}
	}
	return c
}

type finder interface {
	FindValue(key any) (any, bool)
}

func check(c Case) vlib.Outcome {
	if len(c.Base) == 0 {
		return vlib.Outcome{Skip: true}
	}
	seen := map[b6.FeatureID]bool{}
	for _, f := range append(append([]wm.FeatureS{}, c.Base...), c.Added...) {
		if seen[f.ID.ID()] {
			return vlib.Outcome{Skip: true}
		}
		seen[f.ID.ID()] = true
	}
	base, err := wm.BuildBasic(c.Base, 1, true)
	if err != nil {
		return vlib.Outcome{Skip: true, Classes: []string{"skipped:base-not-valid"}}
	}
	// known finding: a string that reads as a lat/lng or a feature id, or contains ';', is read
	// back from YAML as a point, an id or a list
	var strs []string
	for _, f := range c.Added {
		for _, t := range f.Tags {
			strs = append(strs, t.V)
		}
		for _, e := range append(append([]wm.CollEl{}, f.Keys...), f.Values...) {
			if e.Str != nil {
				strs = append(strs, *e.Str)
			}
		}
	}
	for _, e := range c.Edits {
		strs = append(strs, e.Value)
	}
	reinterpreted := false
	for _, v := range strs {
		if _, ok := b6.ExpressionFromString(v).AnyExpression.(b6.StringExpression); !ok {
			reinterpreted = true
		}
	}
	if reinterpreted && vlib.Known("c18-strings-reinterpreted") {
		return vlib.Excluded("c18-strings-reinterpreted")
	}
	// known finding: the YAML library reads even a quoted "~" or "null" as null, and the import fails
	for _, v := range strs {
		if (v == "~" || v == "null") && vlib.Known("c18-null-like-strings") {
			return vlib.Excluded("c18-null-like-strings")
		}
	}
	edited := ingest.NewMutableOverlayWorld(base)
	var ids []b6.FeatureID
	for _, f := range c.Base {
		ids = append(ids, f.ID.ID())
	}
	added, collections := 0, 0
	for _, f := range c.Added {
		ids = append(ids, f.ID.ID())
		if edited.AddFeature(wm.ToIngest(f)) == nil {
			added++
			if f.ID.T == 4 {
				collections++
			}
		}
	}
	edits := 0
	specs := append(append([]wm.FeatureS{}, c.Base...), c.Added...)
	for _, e := range c.Edits {
		if e.Target < 0 || e.Target >= len(ids) {
			return vlib.Outcome{Skip: true}
		}
		// Points without tags aren't indexed, and the mutable world doesn't index one that gets
		// its first tag later (another property's subject): tags of points are only added to,
		// and only where the point starts with one.
		if spec := specs[e.Target]; spec.Point != nil && (e.Remove || len(spec.Tags) == 0) {
			continue
		}
		if e.Remove {
			if edited.RemoveTag(ids[e.Target], e.Key) == nil {
				edits++
			}
		} else if edited.AddTag(ids[e.Target], b6.Tag{Key: e.Key, Value: b6.NewStringExpression(e.Value)}) == nil {
			edits++
		}
	}
	var buffer bytes.Buffer
	if err := ingest.ExportChangesAsYAML(edited, &buffer); err != nil {
		return vlib.Fail("ExportChangesAsYAML failed: %v", err)
	}
	exported := buffer.String()
	replayed := ingest.NewMutableOverlayWorld(base)
	if _, err := ingest.IngestChangesFromYAML(bytes.NewReader(buffer.Bytes())).Apply(replayed); err != nil {
		return vlib.Fail("applying the exported changes to a fresh world fails: %v\nexported:\n%s", err, exported)
	}
	set := wm.Set{Features: append(append([]wm.FeatureS{}, c.Base...), c.Added...)}
	queries := []b6.Query{b6.All{}}
	for _, k := range keys {
		queries = append(queries, b6.Keyed{Key: k})
	}
	queries = append(queries, b6.Tagged{Key: "#amenity", Value: b6.NewStringExpression("42")}, b6.Tagged{Key: "#highway", Value: b6.NewStringExpression("added")})
	// known finding: whether Traverse stops at a point of a base path whose tags were edited depends
	// on how the edit reached the overlay; segments are not compared while it stands
	o := wm.ObserveOptions{SkipTraverse: vlib.Known("c18-traverse-after-tag-edits")}
	want, got := wm.Observe(edited, set.Probes(), queries, o), wm.Observe(replayed, set.Probes(), queries, o)
	if d := wm.Diff(want, got, "edited  ", "replayed"); d != "" {
		return vlib.Fail("the world rebuilt from the exported changes differs from the edited one:\n%s\nexported:\n%s", d, exported)
	}
	// key lookups in collections
	for _, f := range c.Added {
		if f.ID.T != 4 {
			continue
		}
		a, okA := edited.FindFeatureByID(f.ID.ID()).(finder)
		b, okB := replayed.FindFeatureByID(f.ID.ID()).(finder)
		if okA != okB {
			return vlib.Fail("collection %s: present in only one of the worlds", f.ID.ID())
		}
		if !okA {
			continue
		}
		for _, k := range f.Keys {
			key := wm.ToIngest(wm.FeatureS{ID: f.ID, Keys: []wm.CollEl{k}, Values: []wm.CollEl{k}}).(*ingest.CollectionFeature).Keys[0]
			va, fa := a.FindValue(key)
			vb, fb := b.FindValue(key)
			if fa != fb || fmt.Sprint(va) != fmt.Sprint(vb) {
				return vlib.Fail("collection %s: looking up the key %v gives %v (found %v) in the edited world, %v (found %v) in the replayed one\nexported:\n%s", f.ID.ID(), key, va, fa, vb, fb, exported)
			}
		}
	}
	out := vlib.Outcome{NonTrivial: added > 0 && edits > 0}
	if added > 0 {
		out.Classes = append(out.Classes, "features-added")
	}
	if collections > 0 {
		out.Classes = append(out.Classes, "collection-added")
	}
	if edits > 0 {
		out.Classes = append(out.Classes, "tags-edited")
	}
	return out
}

func TestProp(t *testing.T) {
	vlib.Run(t, vlib.Config{ID: "C18", Name: "yaml-changes", CaseTimeout: 60e9,
		Rule: "a generated base world (points, paths incl. mixed lat/lng, areas incl. lat/lng polygons and two areas over one path, relations) under a mutable overlay; edits: a second generated set of features with other ids added in dependency order, a path and a relation over base features, 0-2 collections (int, string or id keys, sorted or not, int and string values), then 0-10 tag additions and removals on base and added features with plain and searchable keys; tag values, roles and collection values from a pool of strings that look like numbers, booleans, nulls, points, feature ids, lists and YAML syntax; oracle: the exported YAML applied to a fresh overlay over the same base gives a world whose canonical observation (every lookup, search, reference query and enumeration) equals the edited one's, and collection key lookups agree; non-trivial = at least one feature added and one tag edit applied"},
		gen, check)
}
