// C32: GeoJSON geometry round-trips and imports faithfully.
package c32

import (
	"encoding/json"
	"fmt"
	"math"
	"sort"
	"strings"
	"testing"

	"diagonal.works/b6"
	"diagonal.works/b6/geojson"
	"diagonal.works/b6/ingest"
	"github.com/golang/geo/s2"
	"pgregory.net/rapid"
	"verif/vlib"
)

type XY [2]float64 // lng, lat

type Geom struct {
	Kind  string   `json:"kind"` // Point, MultiPoint, LineString, MultiLineString, Polygon, MultiPolygon
	Point XY       `json:"point,omitempty"`
	Line  []XY     `json:"line,omitempty"`  // MultiPoint / LineString
	Lines [][]XY   `json:"lines,omitempty"` // MultiLineString / Polygon rings
	Polys [][][]XY `json:"polys,omitempty"` // MultiPolygon
}

type Feat struct {
	Geom  Geom              `json:"geom"`
	Props map[string]string `json:"props,omitempty"`
}

type Case struct {
	Features []Feat `json:"features"`
}

func genXY(t *rapid.T, label string) XY {
	switch rapid.IntRange(0, 4).Draw(t, label+"class") {
	case 0:
		return XY{float64(rapid.IntRange(-180, 180).Draw(t, label+"lng")), float64(rapid.IntRange(-90, 90).Draw(t, label+"lat"))}
	case 1:
		return XY{rapid.Float64Range(-180, 180).Draw(t, label+"flng"), rapid.Float64Range(-90, 90).Draw(t, label+"flat")}
	default:
		return XY{-0.125 + float64(rapid.IntRange(-5000, 5000).Draw(t, label+"dlng"))/1e6, 51.535 + float64(rapid.IntRange(-5000, 5000).Draw(t, label+"dlat"))/1e6}
	}
}

// ring draws a closed ring (first == last) of k distinct vertices around c.
func genRing(t *rapid.T, label string, c XY, r float64, k int, clockwise bool) []XY {
	out := make([]XY, 0, k+1)
	for j := 0; j < k; j++ {
		a := 2 * math.Pi * (float64(j) + float64(rapid.IntRange(-15, 15).Draw(t, label+"jitter"))/100) / float64(k)
		if clockwise {
			a = -a
		}
		out = append(out, XY{c[0] + r*math.Cos(a), c[1] + r*math.Sin(a)})
	}
	return append(out, out[0])
}

func genPolygon(t *rapid.T, label string, c XY) [][]XY {
	r := float64(rapid.IntRange(5, 50).Draw(t, label+"r")) / 1e4
	rings := [][]XY{genRing(t, label+"outer", c, r, rapid.IntRange(3, 7).Draw(t, label+"k"), rapid.IntRange(0, 3).Draw(t, label+"cw") == 0)}
	if rapid.IntRange(0, 2).Draw(t, label+"hole") == 0 {
		rings = append(rings, genRing(t, label+"hole", c, r/3, rapid.IntRange(3, 5).Draw(t, label+"hk"), rapid.IntRange(0, 3).Draw(t, label+"hcw") > 0))
	}
	return rings
}

var propKeys = []string{"name", "#amenity", "highway", "k 1", ""}
var propVals = []string{"cafe", "", "a b", "42", "é"}

func gen(t *rapid.T) Case {
	var c Case
	n := rapid.IntRange(1, 6).Draw(t, "nfeatures")
	for i := 0; i < n; i++ {
		var g Geom
		centre := XY{-0.125 + float64(i)*0.02, 51.535 + float64(rapid.IntRange(-3, 3).Draw(t, "cy"))*0.02}
		switch rapid.IntRange(0, 7).Draw(t, "kind") {
		case 0:
			g = Geom{Kind: "Point", Point: genXY(t, "pt")}
		case 1:
			g = Geom{Kind: "MultiPoint"}
			for j, m := 0, rapid.IntRange(0, 4).Draw(t, "nmp"); j < m; j++ {
				g.Line = append(g.Line, genXY(t, "mp"))
			}
		case 2, 3:
			g = Geom{Kind: "LineString"}
			for j, m := 0, rapid.IntRange(2, 5).Draw(t, "nls"); j < m; j++ {
				g.Line = append(g.Line, genXY(t, "ls"))
			}
		case 4:
			g = Geom{Kind: "MultiLineString"}
			for j, m := 0, rapid.IntRange(0, 3).Draw(t, "nmls"); j < m; j++ {
				var l []XY
				for k, mm := 0, rapid.IntRange(2, 4).Draw(t, "nmlsp"); k < mm; k++ {
					l = append(l, genXY(t, "mls"))
				}
				g.Lines = append(g.Lines, l)
			}
		case 5, 6:
			g = Geom{Kind: "Polygon", Lines: genPolygon(t, "poly", centre)}
		default:
			g = Geom{Kind: "MultiPolygon"}
			for j, m := 0, rapid.IntRange(1, 3).Draw(t, "nmpoly"); j < m; j++ {
				g.Polys = append(g.Polys, genPolygon(t, "mpoly", XY{centre[0], centre[1] + float64(j)*0.2}))
			}
		}
		f := Feat{Geom: g, Props: map[string]string{}}
		for j, m := 0, rapid.IntRange(0, 3).Draw(t, "nprops"); j < m; j++ {
			f.Props[rapid.SampledFrom(propKeys).Draw(t, "pk")] = rapid.SampledFrom(propVals).Draw(t, "pv")
		}
		c.Features = append(c.Features, f)
	}
	return c
}

func coords(l []XY) []geojson.Coordinate {
	out := make([]geojson.Coordinate, 0, len(l))
	for _, p := range l {
		out = append(out, geojson.Coordinate{Lng: p[0], Lat: p[1]})
	}
	return out
}

func toGeometry(g Geom) (geojson.Geometry, bool) {
	switch g.Kind {
	case "Point":
		return geojson.GeometryFromCoordinates(geojson.Point{Lng: g.Point[0], Lat: g.Point[1]}), true
	case "MultiPoint":
		return geojson.GeometryFromCoordinates(geojson.MultiPoint(coords(g.Line))), true
	case "LineString":
		return geojson.GeometryFromCoordinates(geojson.LineString(coords(g.Line))), true
	case "MultiLineString":
		m := geojson.MultiLineString{}
		for _, l := range g.Lines {
			m = append(m, coords(l))
		}
		return geojson.GeometryFromCoordinates(m), true
	case "Polygon":
		p := geojson.Polygon{}
		for _, l := range g.Lines {
			p = append(p, coords(l))
		}
		return geojson.GeometryFromCoordinates(p), true
	case "MultiPolygon":
		m := geojson.MultiPolygon{}
		for _, poly := range g.Polys {
			p := [][]geojson.Coordinate{}
			for _, l := range poly {
				p = append(p, coords(l))
			}
			m = append(m, p)
		}
		return geojson.GeometryFromCoordinates(m), true
	}
	return geojson.Geometry{}, false
}

// flatten lists the coordinates of a geometry with its structure.
func flatten(g geojson.Geometry) string {
	b, _ := json.Marshal(g.Coordinates)
	return g.Type + ":" + string(b)
}

func cycle(points []s2.Point) []string {
	if n := len(points); n > 1 && points[0] == points[n-1] {
		points = points[:n-1]
	}
	out := make([]string, len(points))
	for i, p := range points {
		ll := s2.LatLngFromPoint(p)
		out[i] = fmt.Sprintf("%.9f,%.9f", ll.Lat.Degrees(), ll.Lng.Degrees())
	}
	return out
}

// sameCycle compares two rings up to rotation and direction.
func sameCycle(a, b []string) bool {
	if len(a) != len(b) {
		return false
	}
	n := len(a)
	if n == 0 {
		return true
	}
	for dir := 0; dir < 2; dir++ {
		for off := 0; off < n; off++ {
			ok := true
			for i := 0; i < n && ok; i++ {
				j := (off + i) % n
				if dir == 1 {
					j = (off - i + n) % n
				}
				ok = a[i] == b[j]
			}
			if ok {
				return true
			}
		}
	}
	return false
}

func ringPoints(l []XY) []s2.Point {
	out := make([]s2.Point, 0, len(l))
	for _, p := range l {
		out = append(out, s2.PointFromLatLng(s2.LatLngFromDegrees(p[1], p[0])))
	}
	return out
}

func checkPolygon(what string, got *s2.Polygon, rings [][]XY) error {
	if got.NumLoops() != len(rings) {
		return fmt.Errorf("%s: imported polygon has %d loops, GeoJSON polygon has %d rings", what, got.NumLoops(), len(rings))
	}
	// each loop must be valid on its own (the polygon-level nesting validation of the pinned s2
	// version also rejects b6's own all-counter-clockwise polygons with holes, so it is not used)
	for i := 0; i < got.NumLoops(); i++ {
		if err := got.Loop(i).Validate(); err != nil {
			return fmt.Errorf("%s: imported loop %d is not a valid loop: %v", what, i, err)
		}
	}
	used := make([]bool, len(rings))
	for i := 0; i < got.NumLoops(); i++ {
		lc := cycle(got.Loop(i).Vertices())
		found := false
		for j, r := range rings {
			if !used[j] && sameCycle(lc, cycle(ringPoints(r))) {
				used[j], found = true, true
				break
			}
		}
		if !found {
			return fmt.Errorf("%s: imported loop %d %v is none of the GeoJSON rings", what, i, lc)
		}
	}
	// inside the outer ring (near a vertex, towards the centre) but outside the hole; and inside the hole
	var cx, cy float64
	outer := rings[0][:len(rings[0])-1]
	for _, p := range outer {
		cx, cy = cx+p[0]/float64(len(outer)), cy+p[1]/float64(len(outer))
	}
	nearEdge := s2.PointFromLatLng(s2.LatLngFromDegrees(cy+(outer[0][1]-cy)*0.8, cx+(outer[0][0]-cx)*0.8))
	if !got.ContainsPoint(nearEdge) {
		return fmt.Errorf("%s: imported polygon does not contain a point inside its outer ring", what)
	}
	// the centre of the (convex) hole if there is one, else of the outer ring
	if len(rings) > 1 {
		hole := rings[1][:len(rings[1])-1]
		cx, cy = 0, 0
		for _, p := range hole {
			cx, cy = cx+p[0]/float64(len(hole)), cy+p[1]/float64(len(hole))
		}
	}
	centre := s2.PointFromLatLng(s2.LatLngFromDegrees(cy, cx))
	if got.ContainsPoint(centre) != (len(rings) == 1) {
		return fmt.Errorf("%s: centre of the polygon contained = %v, but the GeoJSON polygon has %d rings (a second ring is a hole around the centre)", what, got.ContainsPoint(centre), len(rings))
	}
	far := s2.PointFromLatLng(s2.LatLngFromDegrees(cy+5, cx+5))
	if got.ContainsPoint(far) {
		return fmt.Errorf("%s: imported polygon contains a far away point (inverted?)", what)
	}
	return nil
}

func check(c Case) vlib.Outcome {
	if len(c.Features) == 0 {
		return vlib.Outcome{Skip: true}
	}
	out := vlib.Outcome{}
	collection := geojson.NewFeatureCollection()
	for i, f := range c.Features {
		g, ok := toGeometry(f.Geom)
		if !ok {
			return vlib.Outcome{Skip: true}
		}
		for _, rs := range append([][][]XY{f.Geom.Lines}, f.Geom.Polys...) {
			if f.Geom.Kind == "Polygon" || f.Geom.Kind == "MultiPolygon" {
				for _, r := range rs {
					if len(r) < 4 || r[0] != r[len(r)-1] {
						return vlib.Outcome{Skip: true}
					}
				}
			}
		}
		// 1. geometry alone, through encoding/json and through geojson.Unmarshal
		b, err := json.Marshal(g)
		if err != nil {
			return vlib.Fail("feature %d: json.Marshal(%s geometry): %v", i, f.Geom.Kind, err)
		}
		var back geojson.Geometry
		if err := json.Unmarshal(b, &back); err != nil {
			return vlib.Fail("feature %d: json.Unmarshal(%s): %v", i, b, err)
		}
		if flatten(back) != flatten(g) {
			return vlib.Fail("feature %d: %s geometry round-trips to %s", i, flatten(g), flatten(back))
		}
		top, err := geojson.Unmarshal(b)
		if err != nil {
			return vlib.Fail("feature %d: geojson.Unmarshal(%s): %v", i, b, err)
		}
		tg, ok := top.(*geojson.Geometry)
		if !ok || flatten(*tg) != flatten(g) {
			return vlib.Fail("feature %d: geojson.Unmarshal(%s) = %T %v", i, b, top, top)
		}
		feature := geojson.NewFeatureWithGeometry(g)
		for k, v := range f.Props {
			feature.Properties[k] = v
		}
		collection.AddFeature(feature)
		out.Classes = append(out.Classes, f.Geom.Kind)
	}
	// 2. the whole collection
	b, err := json.Marshal(collection)
	if err != nil {
		return vlib.Fail("json.Marshal(collection): %v", err)
	}
	top, err := geojson.Unmarshal(b)
	if err != nil {
		return vlib.Fail("geojson.Unmarshal(collection %s): %v", b, err)
	}
	back, ok := top.(*geojson.FeatureCollection)
	if !ok || len(back.Features) != len(c.Features) {
		return vlib.Fail("geojson.Unmarshal(collection) = %T with %d features, wrote %d", top, len(back.Features), len(c.Features))
	}
	for i, f := range back.Features {
		if flatten(f.Geometry) != flatten(collection.Features[i].Geometry) {
			return vlib.Fail("collection feature %d geometry %s round-trips to %s", i, flatten(collection.Features[i].Geometry), flatten(f.Geometry))
		}
		if fmt.Sprint(f.Properties) != fmt.Sprint(collection.Features[i].Properties) {
			return vlib.Fail("collection feature %d properties %v round-trip to %v", i, collection.Features[i].Properties, f.Properties)
		}
	}
	// 3. import: one feature per importable GeoJSON feature (multi-points and multi-line-strings
	// have no b6 counterpart), with the same geometry and properties
	var add ingest.AddFeatures
	add.FillFromGeoJSON(back, "diagonal.works/ns/import")
	var importable []int
	for i, f := range c.Features {
		if k := f.Geom.Kind; k == "Point" || k == "LineString" || k == "Polygon" || k == "MultiPolygon" {
			importable = append(importable, i)
		}
	}
	if len(add) != len(importable) {
		return vlib.Fail("imported %d features from %d importable GeoJSON features", len(add), len(importable))
	}
	for n, i := range importable {
		f := c.Features[i]
		got := add[n]
		what := fmt.Sprintf("GeoJSON feature %d (%s)", i, f.Geom.Kind)
		wantType := map[string]b6.FeatureType{"Point": b6.FeatureTypePoint, "LineString": b6.FeatureTypePath, "Polygon": b6.FeatureTypeArea, "MultiPolygon": b6.FeatureTypeArea}[f.Geom.Kind]
		if id := got.FeatureID(); id.Type != wantType || id.Namespace != "diagonal.works/ns/import" || id.Value != uint64(i) {
			return vlib.Fail("%s imported as %v", what, id)
		}
		props := map[string]string{}
		for _, tag := range got.AllTags() {
			if tag.Key != b6.PointTag && tag.Key != b6.PathTag {
				props[tag.Key] = tag.Value.String()
			}
		}
		if render(props) != render(f.Props) {
			return vlib.Fail("%s: properties %s imported as tags %s", what, render(f.Props), render(props))
		}
		switch f.Geom.Kind {
		case "Point":
			p := got.(b6.PhysicalFeature).Point()
			if cycle([]s2.Point{p})[0] != cycle(ringPoints([]XY{f.Geom.Point}))[0] {
				return vlib.Fail("%s at %v imported at %v", what, f.Geom.Point, cycle([]s2.Point{p}))
			}
		case "LineString":
			pf := got.(b6.PhysicalFeature)
			if pf.GeometryLen() != len(f.Geom.Line) {
				return vlib.Fail("%s with %d points imported with %d", what, len(f.Geom.Line), pf.GeometryLen())
			}
			for j := range f.Geom.Line {
				if g, w := cycle([]s2.Point{pf.PointAt(j)})[0], cycle(ringPoints(f.Geom.Line[j:j+1]))[0]; g != w {
					return vlib.Fail("%s point %d %s imported as %s", what, j, w, g)
				}
			}
		case "Polygon":
			a := got.(*ingest.AreaFeature)
			if a.Len() != 1 {
				return vlib.Fail("%s imported with %d polygons", what, a.Len())
			}
			p, _ := a.Polygon(0)
			if err := checkPolygon(what, p, f.Geom.Lines); err != nil {
				return vlib.Outcome{Err: err}
			}
			out.NonTrivial = out.NonTrivial || len(f.Geom.Lines) > 1
		case "MultiPolygon":
			a := got.(*ingest.AreaFeature)
			if a.Len() != len(f.Geom.Polys) {
				return vlib.Fail("%s with %d polygons imported with %d", what, len(f.Geom.Polys), a.Len())
			}
			for j := range f.Geom.Polys {
				p, _ := a.Polygon(j)
				if err := checkPolygon(fmt.Sprintf("%s polygon %d", what, j), p, f.Geom.Polys[j]); err != nil {
					return vlib.Outcome{Err: err}
				}
			}
			out.NonTrivial = true
		}
	}
	if len(c.Features) >= 2 {
		out.NonTrivial = true
	}
	return out
}

func render(m map[string]string) string {
	ks := make([]string, 0, len(m))
	for k := range m {
		ks = append(ks, k)
	}
	sort.Strings(ks)
	parts := []string{}
	for _, k := range ks {
		parts = append(parts, fmt.Sprintf("%q=%q", k, m[k]))
	}
	return "{" + strings.Join(parts, " ") + "}"
}

func TestProp(t *testing.T) {
	vlib.Run(t, vlib.Config{ID: "C32", Name: "geojson",
		Rule: "feature collections of 1-6 features over all six geometry kinds (points and lines with integer, arbitrary and city-scale coordinates; polygons with 3-7 vertex outer rings drawn counter-clockwise or clockwise and optional holes of either winding; multipolygons of 1-3 polygons; empty multi-geometries) with 0-3 string properties incl. empty keys/values; oracle: each geometry round-trips through encoding/json and geojson.Unmarshal with identical coordinates, the collection round-trips with its properties, and AddFeatures.FillFromGeoJSON yields one b6 feature per point/line string/polygon/multipolygon with sequential IDs, the same vertex cycles (up to rotation/direction, closing vertex dropped), valid polygons whose containment agrees with the rings, and the properties as tags; non-trivial = >= 2 features, a polygon with a hole or a multipolygon"},
		gen, check)
}
