// C08: posting lists decode to exactly the IDs encoded.
package c08

import (
	"fmt"
	"math"
	"sort"
	"testing"

	"diagonal.works/b6"
	"diagonal.works/b6/ingest/compact"
	"pgregory.net/rapid"
	"verif/plist"
	"verif/vlib"
)

var nsPool = []b6.Namespace{"", "diagonal.works/ns/a", "openstreetmap.org/node", "openstreetmap.org/way", "x/y/z", "zz"}
var typePool = []b6.FeatureType{b6.FeatureTypePoint, b6.FeatureTypePath, b6.FeatureTypeArea, b6.FeatureTypeRelation}

type ID struct {
	T int    `json:"t"` // index into typePool
	N int    `json:"n"` // index into nsPool
	V uint64 `json:"v,string"`
}

func (id ID) fid() b6.FeatureID {
	return b6.FeatureID{Type: typePool[id.T%len(typePool)], Namespace: nsPool[id.N%len(nsPool)], Value: id.V}
}

type Step struct {
	Op     string `json:"op"` // next | advance
	Target *ID    `json:"target,omitempty"`
}

type Case struct {
	IDs    []ID   `json:"ids"`
	Script []Step `json:"script"`
}

var gaps = []uint64{1, 1, 1, 2, 3, 100, 127, 128, 129, 16383, 16384, 1 << 21, 1<<21 - 1, 1 << 28, 1 << 35, 1 << 42, 1 << 49, 1 << 56, 1<<56 - 1, 1 << 62, 1 << 63}

func gen(t *rapid.T) Case {
	var c Case
	maxLen := 120
	if vlib.Tier() == "thorough" {
		maxLen = 1200
	}
	groups := rapid.IntRange(0, 6).Draw(t, "groups")
	for g := 0; g < groups; g++ {
		ty := rapid.IntRange(0, len(typePool)-1).Draw(t, "type")
		ns := rapid.IntRange(1, len(nsPool)-1).Draw(t, "ns") // "" is the invalid namespace: only an Advance target
		var n int
		switch rapid.IntRange(0, 3).Draw(t, "sizeclass") {
		case 0:
			n = rapid.IntRange(1, 3).Draw(t, "n")
		case 1:
			n = rapid.IntRange(1, 70).Draw(t, "n")
		default:
			n = rapid.IntRange(1, maxLen).Draw(t, "n")
		}
		v := uint64(0)
		switch rapid.IntRange(0, 3).Draw(t, "startclass") {
		case 0:
			v = 0
		case 1:
			v = uint64(rapid.IntRange(1, 1000).Draw(t, "start"))
		case 2:
			v = 1<<63 - uint64(rapid.IntRange(0, 5).Draw(t, "start"))
		case 3:
			v = math.MaxUint64 - uint64(rapid.IntRange(0, 200).Draw(t, "start"))
		}
		gapClass := rapid.IntRange(0, 2).Draw(t, "gapclass") // 0: all small, 1: mixed, 2: all large
		for i := 0; i < n; i++ {
			c.IDs = append(c.IDs, ID{ty, ns, v})
			var gap uint64
			switch gapClass {
			case 0:
				gap = uint64(rapid.IntRange(1, 3).Draw(t, "gap"))
			case 1:
				gap = rapid.SampledFrom(gaps).Draw(t, "gap")
			default:
				gap = rapid.SampledFrom(gaps[13:]).Draw(t, "gap")
			}
			if v+gap < v { // overflow: the group ends here
				break
			}
			v += gap
		}
	}
	steps := rapid.IntRange(1, 40).Draw(t, "steps")
	for i := 0; i < steps; i++ {
		if rapid.IntRange(0, 2).Draw(t, "op") == 0 || len(c.IDs) == 0 && rapid.Bool().Draw(t, "nextonempty") {
			c.Script = append(c.Script, Step{Op: "next"})
			continue
		}
		var target ID
		switch rapid.IntRange(0, 5).Draw(t, "targetclass") {
		case 0, 1, 2:
			if len(c.IDs) > 0 {
				target = rapid.SampledFrom(c.IDs).Draw(t, "element")
				switch rapid.IntRange(0, 3).Draw(t, "nudge") {
				case 0:
					target.V--
				case 1:
					target.V++
				}
				break
			}
			fallthrough
		case 3: // a namespace/type that may be absent from the list
			target = ID{rapid.IntRange(0, len(typePool)-1).Draw(t, "type"), rapid.IntRange(0, len(nsPool)-1).Draw(t, "ns"),
				rapid.SampledFrom([]uint64{0, 1, 1 << 40, math.MaxUint64}).Draw(t, "value")}
		case 4:
			target = ID{0, 0, 0} // before everything
		case 5:
			target = ID{len(typePool) - 1, len(nsPool) - 1, math.MaxUint64} // after everything
		}
		c.Script = append(c.Script, Step{Op: "advance", Target: &target})
	}
	return c
}

func check(c Case) vlib.Outcome {
	ids := make([]b6.FeatureID, 0, len(c.IDs))
	for _, id := range c.IDs {
		if id.T < 0 || id.N < 0 || id.N%len(nsPool) == 0 {
			return vlib.Outcome{Skip: true}
		}
		ids = append(ids, id.fid())
	}
	sorted := plist.SortIDs(ids)
	nt := plist.Table(nsPool[1:]) // "" is the table's own sentinel entry
	buffer := plist.Encode("token", sorted, nt)
	out := vlib.Outcome{}

	// header
	var header compact.PostingListHeader
	header.Unmarshal(buffer)
	if header.Token != "token" || header.Features != len(sorted) {
		return vlib.Fail("header token %q features %d, encoded token \"token\" and %d features", header.Token, header.Features, len(sorted))
	}
	// full scan
	it := compact.NewIterator(buffer, nt)
	for i, want := range sorted {
		if !it.Next() {
			return vlib.Fail("full scan: Next() false at element %d of %d", i, len(sorted))
		}
		if it.FeatureID() != want {
			return vlib.Fail("full scan: element %d is %v, encoded %v", i, it.FeatureID(), want)
		}
	}
	if it.Next() {
		return vlib.Fail("full scan: extra element %v after %d elements", it.FeatureID(), len(sorted))
	}
	// scripted walk
	it = compact.NewIterator(buffer, nt)
	pos := -1 // index of the current element; -1 = not started
	mixed, advanced, absentNS := false, false, false
	present := map[[2]int]bool{}
	for _, id := range c.IDs {
		present[[2]int{id.T % len(typePool), id.N % len(nsPool)}] = true
	}
	for si, step := range c.Script {
		switch step.Op {
		case "next":
			got := it.Next()
			if want := pos+1 < len(sorted); got != want {
				return vlib.Fail("step %d: Next() = %v at position %d of %d", si, got, pos, len(sorted))
			}
			if !got {
				out.Classes = append(out.Classes, "ran-to-end")
				goto done
			}
			pos++
			if advanced {
				mixed = true
			}
		case "advance":
			if step.Target == nil {
				return vlib.Outcome{Skip: true}
			}
			target := step.Target.fid()
			from := pos
			if from < 0 {
				from = 0
			}
			want := from + sort.Search(len(sorted)-from, func(j int) bool { return !sorted[from+j].Less(target) })
			got := it.Advance(target)
			if got != (want < len(sorted)) {
				return vlib.Fail("step %d: Advance(%v) = %v from position %d; first element >= target is at %d of %d", si, target, got, pos, want, len(sorted))
			}
			if !present[[2]int{step.Target.T % len(typePool), step.Target.N % len(nsPool)}] {
				absentNS = true
			}
			advanced = true
			if !got {
				// The suite documents that a failed Advance leaves a positioned iterator where it was.
				if pos < 0 {
					goto done
				}
				out.Classes = append(out.Classes, "failed-advance-then-continue")
				break
			}
			pos = want
		default:
			return vlib.Outcome{Skip: true}
		}
		if pos >= 0 && it.FeatureID() != sorted[pos] {
			return vlib.Fail("step %d (%s %v): iterator at %v, model at element %d = %v", si, step.Op, fmtTarget(step.Target), it.FeatureID(), pos, sorted[pos])
		}
		if v, ok := it.Value().(b6.FeatureID); pos >= 0 && (!ok || v != sorted[pos]) {
			return vlib.Fail("step %d: Value() = %v, model %v", si, it.Value(), sorted[pos])
		}
	}
done:
	groups := map[[2]int]bool{}
	for _, id := range sorted {
		groups[[2]int{int(id.Type), nsIndex(id.Namespace)}] = true
	}
	blocks := (len(buffer)) / compact.PostingListBlockSize
	out.NonTrivial = blocks >= 2 && len(groups) >= 2
	if mixed {
		out.Classes = append(out.Classes, "next-after-advance")
	}
	if absentNS {
		out.Classes = append(out.Classes, "advance-to-absent-namespace")
	}
	if blocks >= 2 {
		out.Classes = append(out.Classes, ">=2-blocks")
	}
	if len(sorted) == 0 {
		out.Classes = append(out.Classes, "empty-list")
	}
	return out
}

func nsIndex(ns b6.Namespace) int {
	for i, n := range nsPool {
		if n == ns {
			return i
		}
	}
	return -1
}

func fmtTarget(t *ID) string {
	if t == nil {
		return ""
	}
	return fmt.Sprint(t.fid())
}

func TestProp(t *testing.T) {
	vlib.Run(t, vlib.Config{ID: "C08", Name: "posting-list",
		Rule: "0-6 (type, namespace) groups of strictly increasing IDs (1-120 per group in quick, 1-1200 in thorough; starts at 0, small, 2^63, near 2^64; gaps forcing 1-10 byte varints, block overflow and padding) encoded with PostingList.Fill; a full Next scan and a script of 1-40 Next/Advance calls (targets: elements, elements +-1, other types/namespaces incl. absent ones, before first, after last) compared with a sorted-slice model; non-trivial = >= 2 blocks and >= 2 groups"},
		gen, check)
}
