// C36: builds give the same world for any degree of parallelism.
package c36

import (
	"fmt"
	"testing"

	"diagonal.works/b6"
	"pgregory.net/rapid"
	"verif/vlib"
	"verif/wm"
)

type Case struct {
	Source string     `json:"source"` // osm, features
	Data   wm.OSMData `json:"data,omitempty"`
	Set    wm.Set     `json:"set,omitempty"`
	Order  []int      `json:"order,omitempty"` // sort keys giving the order features are fed in (features source)
	World  string     `json:"world"`           // basic, compact
	Cores  []int      `json:"cores"`
}

func gen(t *rapid.T) Case {
	c := Case{
		Source: rapid.SampledFrom([]string{"osm", "features"}).Draw(t, "source"),
		World:  rapid.SampledFrom([]string{"basic", "basic", "compact"}).Draw(t, "world"),
	}
	if c.Source == "osm" {
		c.Data = wm.GenOSM(t, wm.OSMGenConfig{MaxNodes: 8, MaxWays: 5, MaxClosed: 4, MaxRelations: 4, Clockwise: true, MissingNodes: true, Multipolygons: true, Network: true})
	} else {
		c.Set = wm.GenSet(t, wm.GenConfig{MaxPoints: 5, MaxPaths: 4, MaxLoops: 3, MaxAreas: 4, MaxRelations: 3, LatLngAreas: true, AbsentMembers: true})
		for range c.Set.Features {
			c.Order = append(c.Order, rapid.IntRange(0, 1000).Draw(t, "order"))
		}
	}
	n := 2
	if c.World == "basic" {
		n = 3
	}
	c.Cores = rapid.SliceOfNDistinct(rapid.SampledFrom([]int{2, 3, 4, 8, 16}), n, n, rapid.ID[int]).Draw(t, "cores")
	return c
}

func ordered(c Case) []wm.FeatureS {
	fs := append([]wm.FeatureS{}, c.Set.Features...)
	if len(c.Order) < len(fs) {
		return fs
	}
	idx := make([]int, len(fs))
	for i := range idx {
		idx[i] = i
	}
	// stable insertion sort by the generated keys
	for i := 1; i < len(idx); i++ {
		for j := i; j > 0 && c.Order[idx[j]] < c.Order[idx[j-1]]; j-- {
			idx[j], idx[j-1] = idx[j-1], idx[j]
		}
	}
	out := make([]wm.FeatureS, len(fs))
	for i, k := range idx {
		out[i] = fs[k]
	}
	return out
}

func build(c Case, cores int) (b6.World, error) {
	if c.Source == "osm" {
		if c.World == "basic" {
			return c.Data.BuildBasic(cores)
		}
		return c.Data.BuildCompact(cores)
	}
	if c.World == "basic" {
		return wm.BuildBasic(ordered(c), cores, false)
	}
	return wm.BuildCompact(ordered(c), cores)
}

func check(c Case) vlib.Outcome {
	if len(c.Cores) == 0 {
		return vlib.Outcome{Skip: true}
	}
	var probes []b6.FeatureID
	var queries []b6.Query
	var lls []wm.LL
	switch c.Source {
	case "osm":
		if !c.Data.Valid() || len(c.Data.Nodes) == 0 {
			return vlib.Outcome{Skip: true}
		}
		probes, queries = c.Data.Probes(), c.Data.Queries()
		for _, n := range c.Data.Nodes {
			lls = append(lls, n.LL)
		}
	case "features":
		if len(c.Set.Features) == 0 {
			return vlib.Outcome{Skip: true}
		}
		if _, err := wm.BuildBasic(c.Set.Features, 1, true); err != nil {
			return vlib.Outcome{Skip: true, Classes: []string{"skipped:set-not-valid"}}
		}
		probes = c.Set.Probes()
		queries = []b6.Query{b6.All{}, b6.Keyed{Key: "#amenity"}, b6.Keyed{Key: "#highway"}, b6.Keyed{Key: "#building"}, b6.Typed{Type: b6.FeatureTypeArea, Query: b6.All{}}}
		for _, f := range c.Set.Features {
			if f.Point != nil {
				lls = append(lls, *f.Point)
			}
		}
	default:
		return vlib.Outcome{Skip: true}
	}
	queries = append(queries, wm.SpatialQueries(lls)...)
	one, err := build(c, 1)
	if err != nil {
		return vlib.Fail("build with 1 goroutine failed: %v", err)
	}
	o := wm.ObserveOptions{}
	want := wm.Observe(one, probes, queries, o)
	for _, g := range c.Cores {
		if g < 1 || g > 16 {
			return vlib.Outcome{Skip: true}
		}
		w, err := build(c, g)
		if err != nil {
			return vlib.Fail("build with %d goroutines failed: %v", g, err)
		}
		if d := wm.Diff(want, wm.Observe(w, probes, queries, o), " 1 goroutine ", fmt.Sprintf("%2d goroutines", g)); d != "" {
			return vlib.Fail("%s world from %s source differs between 1 and %d goroutines:\n%s", c.World, c.Source, g, d)
		}
	}
	areas := false
	for _, f := range c.Set.Features {
		if len(f.Polys) > 0 {
			areas = true
		}
	}
	for _, w := range c.Data.Ways {
		if len(w.Nodes) > 2 && w.Nodes[0] == w.Nodes[len(w.Nodes)-1] {
			areas = true
		}
	}
	return vlib.Outcome{NonTrivial: areas, Classes: []string{"world=" + c.World, "source=" + c.Source}}
}

func TestProp(t *testing.T) {
	vlib.Run(t, vlib.Config{ID: "C36", Name: "parallel-builds", CaseTimeout: 180e9,
		Rule: "a generated source - OSM data with clockwise closed ways, multipolygons, missing nodes and repeated strings, or a feature list fed in a generated order (areas may come before their paths) - built as a basic world or a compact world with 1 goroutine and with 2-3 further goroutine counts from {2,3,4,8,16}; oracle: the canonical observation of every read query (lookups, geometry, ordered searches, references, traversal, enumeration) is identical to the single-goroutine build; non-trivial = the source contains an area"},
		gen, check)
}
