// C24: collection functions compute what their documentation says.
package c24

import (
	"fmt"
	"sort"
	"strings"
	"testing"

	"diagonal.works/b6"
	"diagonal.works/b6/api"
	"diagonal.works/b6/api/functions"
	"diagonal.works/b6/ingest"
	"pgregory.net/rapid"
	"verif/vlib"
	"verif/wm"
)

// V is an int, a float, a string or a feature ID.
type V struct {
	Int *int     `json:"int,omitempty"`
	F   *float64 `json:"f,omitempty"`
	Str *string  `json:"str,omitempty"`
	ID  *wm.FID  `json:"id,omitempty"`
}

type Item struct {
	K V `json:"k"`
	V V `json:"v"`
}

type Case struct {
	Op    string   `json:"op"` // collection take top filter map map-items flatten sum-by-key count-values count-keys join-missing count
	Items []Item   `json:"items"`
	Other []Item   `json:"other,omitempty"` // join-missing: the joined collection
	Inner [][]Item `json:"inner,omitempty"` // flatten
	N     int      `json:"n"`               // take, top; the threshold or constant of filter and map
}

func (v V) literal() (b6.Expression, bool) {
	switch {
	case v.Int != nil:
		return b6.NewIntExpression(*v.Int), true
	case v.F != nil:
		return b6.NewFloatExpression(*v.F), *v.F == *v.F
	case v.Str != nil:
		return b6.NewStringExpression(*v.Str), true
	case v.ID != nil:
		return b6.NewFeatureIDExpression(v.ID.ID()), true
	}
	return b6.Expression{}, false
}

func (v V) value() interface{} {
	switch {
	case v.Int != nil:
		return *v.Int
	case v.F != nil:
		return *v.F
	case v.Str != nil:
		return *v.Str
	case v.ID != nil:
		return v.ID.ID()
	}
	return nil
}

// canon renders a value independent of the numeric wrapper types of the library.
func canon(v interface{}) string {
	switch v := v.(type) {
	case int:
		return fmt.Sprintf("i:%d", v)
	case b6.IntNumber:
		return fmt.Sprintf("i:%d", int(v))
	case float64:
		return fmt.Sprintf("f:%v", v)
	case b6.FloatNumber:
		return fmt.Sprintf("f:%v", float64(v))
	case string:
		return fmt.Sprintf("s:%q", v)
	case b6.FeatureID:
		return "id:" + v.String()
	case api.Pair:
		return "(" + canon(v.First()) + ", " + canon(v.Second()) + ")"
	case nil:
		return "nil"
	}
	return fmt.Sprintf("%T:%v", v, v)
}

func sym(s string) b6.Expression { return b6.NewSymbolExpression(s) }
func call(f string, args ...b6.Expression) b6.Expression {
	return b6.NewCallExpression(sym(f), args)
}

func collectionOf(items []Item) (b6.Expression, bool) {
	args := make([]b6.Expression, 0, len(items))
	for _, i := range items {
		k, ok1 := i.K.literal()
		v, ok2 := i.V.literal()
		if !ok1 || !ok2 {
			return b6.Expression{}, false
		}
		args = append(args, call("pair", k, v))
	}
	return call("collection", args...), true
}

type pair struct{ k, v string }

func listOf(items []Item) []pair {
	out := make([]pair, 0, len(items))
	for _, i := range items {
		out = append(out, pair{canon(i.K.value()), canon(i.V.value())})
	}
	return out
}

var ns = []string{"diagonal.works/test"}

func genV(t *rapid.T, kind int) V {
	switch kind {
	case 0:
		i := rapid.IntRange(-3, 6).Draw(t, "int")
		return V{Int: &i}
	case 1:
		f := rapid.SampledFrom([]float64{-1.5, 0, 0.5, 1, 2.25, 1e9}).Draw(t, "float")
		return V{F: &f}
	case 2:
		s := rapid.SampledFrom([]string{"", "a", "b", "primary", "z"}).Draw(t, "str")
		return V{Str: &s}
	}
	id := wm.FID{T: rapid.IntRange(0, 2).Draw(t, "idtype"), NS: ns[0], V: uint64(rapid.IntRange(1, 5).Draw(t, "idvalue"))}
	return V{ID: &id}
}

func genItems(t *rapid.T, keyKind, valueKind int, max int) []Item {
	var out []Item
	for i, n := 0, rapid.IntRange(0, max).Draw(t, "nitems"); i < n; i++ {
		vk := valueKind
		if vk < 0 {
			vk = rapid.IntRange(0, 3).Draw(t, "valuekind")
		}
		out = append(out, Item{K: genV(t, keyKind), V: genV(t, vk)})
	}
	return out
}

func sortedKeys(t *rapid.T, label string) []Item {
	keys := rapid.SliceOfN(rapid.IntRange(-2, 6), 0, 6).Draw(t, label)
	sort.Ints(keys)
	var out []Item
	for _, k := range keys {
		k := k
		out = append(out, Item{K: V{Int: &k}, V: genV(t, rapid.IntRange(0, 3).Draw(t, "valuekind"))})
	}
	return out
}

func gen(t *rapid.T) Case {
	c := Case{Op: rapid.SampledFrom([]string{"collection", "take", "take", "top", "top", "top", "filter", "map", "map-items", "flatten", "sum-by-key", "count-values", "count-keys", "join-missing", "count"}).Draw(t, "op")}
	c.N = rapid.SampledFrom([]int{-2, -1, 0, 1, 2, 3, 5, 100}).Draw(t, "n")
	keyKind := rapid.IntRange(0, 3).Draw(t, "keykind")
	switch c.Op {
	case "top":
		kind := rapid.SampledFrom([]int{0, 0, 1, 1, -1, 2}).Draw(t, "topkind")
		c.Items = genItems(t, keyKind, kind, 7)
	case "filter", "map", "sum-by-key":
		c.Items = genItems(t, keyKind, 0, 7)
	case "flatten":
		for i, n := 0, rapid.IntRange(0, 4).Draw(t, "ninner"); i < n; i++ {
			c.Inner = append(c.Inner, genItems(t, keyKind, -1, 3))
		}
	case "join-missing":
		c.Items = sortedKeys(t, "basekeys")
		c.Other = sortedKeys(t, "joinedkeys")
	default:
		c.Items = genItems(t, keyKind, -1, 7)
	}
	return c
}

// expected gives the list-based definition of each function: the items in
// order, whether the order is defined, or an expected error.
func expected(c Case) (items []pair, ordered bool, wantErr bool) {
	in := listOf(c.Items)
	n := c.N
	switch c.Op {
	case "collection":
		return in, true, false
	case "take":
		if n < 0 {
			n = 0
		}
		if n > len(in) {
			n = len(in)
		}
		return in[:n], true, false
	case "count":
		return []pair{{"count", fmt.Sprintf("i:%d", len(in))}}, true, false
	case "filter":
		for i, it := range c.Items {
			if *it.V.Int > c.N {
				items = append(items, in[i])
			}
		}
		return items, true, false
	case "map":
		for i, it := range c.Items {
			items = append(items, pair{in[i].k, fmt.Sprintf("i:%d", *it.V.Int+c.N)})
		}
		return items, true, false
	case "map-items":
		for _, p := range in {
			items = append(items, pair{p.v, p.k})
		}
		return items, true, false
	case "flatten":
		for _, inner := range c.Inner {
			items = append(items, listOf(inner)...)
		}
		return items, true, false
	case "sum-by-key":
		sums, order := map[string]int{}, []string{}
		for i, it := range c.Items {
			if _, ok := sums[in[i].k]; !ok {
				order = append(order, in[i].k)
			}
			sums[in[i].k] += *it.V.Int
		}
		for _, k := range order {
			items = append(items, pair{k, fmt.Sprintf("i:%d", sums[k])})
		}
		return items, false, false
	case "count-values", "count-keys":
		counts, order := map[string]int{}, []string{}
		for _, p := range in {
			k := p.v
			if c.Op == "count-keys" {
				k = p.k
			}
			if _, ok := counts[k]; !ok {
				order = append(order, k)
			}
			counts[k]++
		}
		for _, k := range order {
			items = append(items, pair{k, fmt.Sprintf("i:%d", counts[k])})
		}
		return items, false, false
	case "join-missing":
		// the base's items, plus those of joined whose key the base lacks, in key order
		other := listOf(c.Other)
		inBase := map[int]bool{}
		for _, it := range c.Items {
			inBase[*it.K.Int] = true
		}
		i, j := 0, 0
		for i < len(in) || j < len(other) {
			switch {
			case j < len(other) && inBase[*c.Other[j].K.Int]:
				j++
			case j >= len(other) || (i < len(in) && *c.Items[i].K.Int <= *c.Other[j].K.Int):
				items = append(items, in[i])
				i++
			default:
				items = append(items, other[j])
				j++
			}
		}
		return items, true, false
	}
	return nil, false, false
}

func valid(c Case) bool {
	all := append(append([]Item{}, c.Items...), c.Other...)
	for _, in := range c.Inner {
		all = append(all, in...)
	}
	for _, it := range all {
		if _, ok := it.K.literal(); !ok {
			return false
		}
		if _, ok := it.V.literal(); !ok {
			return false
		}
	}
	intValues := func(items []Item) bool {
		for _, it := range items {
			if it.V.Int == nil {
				return false
			}
		}
		return true
	}
	increasing := func(items []Item) bool {
		for i, it := range items {
			if it.K.Int == nil || (i > 0 && *items[i-1].K.Int > *it.K.Int) {
				return false
			}
		}
		return true
	}
	switch c.Op {
	case "filter", "map", "sum-by-key":
		return intValues(c.Items)
	case "join-missing":
		return increasing(c.Items) && increasing(c.Other)
	case "collection", "take", "top", "map-items", "flatten", "count-values", "count-keys", "count":
		return true
	}
	return false
}

func build(c Case) (b6.Expression, bool) {
	items, ok := collectionOf(c.Items)
	if !ok {
		return b6.Expression{}, false
	}
	n := b6.NewIntExpression(c.N)
	switch c.Op {
	case "collection":
		return items, true
	case "take", "top":
		return call(c.Op, items, n), true
	case "count":
		return call("count", items), true
	case "filter":
		return call("filter", items, b6.NewLambdaExpression([]string{"v"}, call("gt", sym("v"), n))), true
	case "map":
		return call("map", items, b6.NewLambdaExpression([]string{"v"}, call("add", sym("v"), n))), true
	case "map-items":
		return call("map-items", items, b6.NewLambdaExpression([]string{"p"}, call("pair", call("second", sym("p")), call("first", sym("p"))))), true
	case "flatten":
		var args []b6.Expression
		for i, inner := range c.Inner {
			e, ok := collectionOf(inner)
			if !ok {
				return b6.Expression{}, false
			}
			args = append(args, call("pair", b6.NewIntExpression(i), e))
		}
		return call("flatten", call("collection", args...)), true
	case "sum-by-key", "count-values", "count-keys":
		return call(c.Op, items), true
	case "join-missing":
		other, ok := collectionOf(c.Other)
		return call("join-missing", items, other), ok
	}
	return b6.Expression{}, false
}

func check(c Case) vlib.Outcome {
	if !valid(c) {
		return vlib.Outcome{Skip: true}
	}
	e, ok := build(c)
	if !ok {
		return vlib.Outcome{Skip: true}
	}
	if c.Op == "top" && len(c.Items) == 0 && vlib.Known("c24-top-empty") {
		return vlib.Excluded("c24-top-empty")
	}
	what, _ := api.UnparseExpression(e)
	ctx := functions.NewContext(ingest.NewBasicMutableWorld())
	result, err := api.Evaluate(e, ctx)
	if c.Op == "top" {
		return checkTop(c, what, result, err)
	}
	want, ordered, wantErr := expected(c)
	if err != nil {
		if wantErr {
			return vlib.Outcome{Classes: []string{"op=" + c.Op, "error"}}
		}
		return vlib.Fail("%s fails: %v; expected %v", what, err, want)
	}
	var got []pair
	if c.Op == "count" {
		got = []pair{{"count", canon(result)}}
	} else {
		var o vlib.Outcome
		if got, o = list(what, result); o.Err != nil {
			return o
		}
	}
	if !ordered {
		sort.Slice(got, func(i, j int) bool { return got[i].k+got[i].v < got[j].k+got[j].v })
		want = append([]pair{}, want...)
		sort.Slice(want, func(i, j int) bool { return want[i].k+want[i].v < want[j].k+want[j].v })
	}
	if fmt.Sprint(got) != fmt.Sprint(want) {
		return vlib.Fail("%s gives %v; its definition over lists gives %v", what, got, want)
	}
	dup := false
	seen := map[string]bool{}
	for _, it := range c.Items {
		k := canon(it.K.value())
		dup = dup || seen[k]
		seen[k] = true
	}
	return vlib.Outcome{NonTrivial: len(c.Items) >= 2 || len(c.Inner) >= 2, Classes: classes(c, dup)}
}

func classes(c Case, dup bool) []string {
	out := []string{"op=" + c.Op}
	if dup {
		out = append(out, "duplicate-keys")
	}
	if len(c.Items) == 0 && len(c.Inner) == 0 {
		out = append(out, "empty-input")
	}
	if c.N <= 0 && (c.Op == "take" || c.Op == "top") {
		out = append(out, "n<=0")
	}
	return out
}

// list iterates a collection result, checking any count it reports on the way.
func list(what string, result interface{}) ([]pair, vlib.Outcome) {
	c, ok := result.(b6.UntypedCollection)
	if !ok {
		return nil, vlib.Fail("%s evaluates to a %T, not a collection", what, result)
	}
	var got []pair
	i := c.BeginUntyped()
	for {
		ok, err := i.Next()
		if err != nil {
			return nil, vlib.Fail("%s: iterating the result fails: %v", what, err)
		}
		if !ok {
			break
		}
		got = append(got, pair{canon(i.Key()), canon(i.Value())})
		if len(got) > 10000 {
			return nil, vlib.Fail("%s: the result doesn't end", what)
		}
	}
	if n, ok := c.Count(); ok && n != len(got) {
		return nil, vlib.Fail("%s reports a count of %d, but iterating it yields %d items", what, n, len(got))
	}
	return got, vlib.Outcome{}
}

// checkTop: the n entries with the greatest values. Ties make several answers
// right, so the result is validated rather than compared.
func checkTop(c Case, what string, result interface{}, err error) vlib.Outcome {
	kind := ""
	mixed := false
	for i, it := range c.Items {
		k := "other"
		if it.V.Int != nil {
			k = "int"
		} else if it.V.F != nil {
			k = "float"
		}
		if i == 0 {
			kind = k
		} else if k != kind {
			mixed = true
		}
	}
	if kind == "other" || mixed {
		if err == nil {
			return vlib.Fail("%s succeeds although the values aren't all integers or all floats", what)
		}
		return vlib.Outcome{Classes: []string{"op=top", "error"}}
	}
	if err != nil {
		return vlib.Fail("%s fails: %v", what, err)
	}
	got, o := list(what, result)
	if o.Err != nil {
		return o
	}
	n := c.N
	if n < 0 {
		n = 0
	}
	if n > len(c.Items) {
		n = len(c.Items)
	}
	if len(got) != n {
		return vlib.Fail("%s gives %d items %v, expected %d", what, len(got), got, n)
	}
	value := func(it Item) float64 {
		if it.V.Int != nil {
			return float64(*it.V.Int)
		}
		return *it.V.F
	}
	values := []float64{}
	available := map[string]int{}
	byCanon := map[string]float64{}
	for _, it := range c.Items {
		values = append(values, value(it))
		p := pair{canon(it.K.value()), canon(it.V.value())}
		available[p.k+" "+p.v]++
		byCanon[p.v] = value(it)
	}
	sort.Sort(sort.Reverse(sort.Float64Slice(values)))
	ties := false
	for i, p := range got {
		if available[p.k+" "+p.v] == 0 {
			return vlib.Fail("%s gives %v, whose item %d isn't an item of the input (or is there more often)", what, got, i)
		}
		available[p.k+" "+p.v]--
		if byCanon[p.v] != values[i] {
			return vlib.Fail("%s gives %v; item %d has value %v where the %d greatest values, in order, are %v", what, got, i, p.v, n, values[:n])
		}
	}
	for i := 1; i < len(values); i++ {
		ties = ties || values[i] == values[i-1]
	}
	out := vlib.Outcome{NonTrivial: len(c.Items) >= 2, Classes: classes(c, false)}
	if ties {
		out.Classes = append(out.Classes, "ties")
	}
	return out
}

// ---------------------------------------------------------------------------
// key lookups in collection features

type FindCase struct {
	Keys   []V  `json:"keys"`
	Probes []V  `json:"probes"`
	Sorted bool `json:"sorted"`
	// Replaces: the feature is added to a mutable world that already holds a
	// collection with the same ID and these keys (sorted or not), and looked up there
	Replaces       []V  `json:"replaces,omitempty"`
	ReplacesSorted bool `json:"replaces_sorted,omitempty"`
	InWorld        bool `json:"in_world,omitempty"`
}

func genFind(t *rapid.T) FindCase {
	kind := rapid.IntRange(0, 3).Draw(t, "kind")
	c := FindCase{Sorted: rapid.Bool().Draw(t, "sorted")}
	for i, n := 0, rapid.IntRange(0, 12).Draw(t, "nkeys"); i < n; i++ {
		c.Keys = append(c.Keys, genV(t, kind))
	}
	for i, n := 0, rapid.IntRange(1, 6).Draw(t, "nprobes"); i < n; i++ {
		c.Probes = append(c.Probes, genV(t, kind))
	}
	if c.InWorld = rapid.IntRange(0, 2).Draw(t, "inworld") == 0; c.InWorld && rapid.Bool().Draw(t, "replaces") {
		c.ReplacesSorted = rapid.Bool().Draw(t, "replacessorted")
		for i, n := 0, rapid.IntRange(1, 6).Draw(t, "nreplaced"); i < n; i++ {
			c.Replaces = append(c.Replaces, genV(t, kind))
		}
	}
	return c
}

func checkFind(c FindCase) vlib.Outcome {
	kind := func(v V) string {
		switch {
		case v.Int != nil:
			return "int"
		case v.F != nil:
			return "float"
		case v.Str != nil:
			return "string"
		case v.ID != nil:
			return "id"
		}
		return ""
	}
	f := &ingest.CollectionFeature{CollectionID: b6.CollectionID{Namespace: "diagonal.works/test", Value: 1}}
	for i, k := range append(append([]V{}, c.Keys...), c.Probes...) {
		if kind(k) == "" || kind(k) != kind(c.Probes[0]) || (k.F != nil && *k.F != *k.F) {
			return vlib.Outcome{Skip: true}
		}
		if i < len(c.Keys) {
			f.Keys = append(f.Keys, k.value())
			f.Values = append(f.Values, i) // the value says which entry was found
		}
	}
	if c.Sorted {
		f.Sort()
	}
	type finder interface {
		FindValue(key any) (any, bool)
		FindValues(key any, values []any) []any
	}
	var found finder = f
	if c.InWorld {
		w := ingest.NewBasicMutableWorld()
		if len(c.Replaces) > 0 {
			old := &ingest.CollectionFeature{CollectionID: f.CollectionID}
			for i, k := range c.Replaces {
				if kind(k) != kind(c.Probes[0]) || (k.F != nil && *k.F != *k.F) {
					return vlib.Outcome{Skip: true}
				}
				old.Keys = append(old.Keys, k.value())
				old.Values = append(old.Values, 1000+i)
			}
			if c.ReplacesSorted {
				old.Sort()
			}
			if err := w.AddFeature(old); err != nil {
				return vlib.Outcome{Skip: true}
			}
		}
		if err := w.AddFeature(f.Clone()); err != nil {
			return vlib.Outcome{Skip: true}
		}
		wf, ok := w.FindFeatureByID(f.FeatureID()).(finder)
		if !ok {
			return vlib.Fail("the collection %s isn't found in the world, or has no FindValue", f.FeatureID())
		}
		found = wf
	}
	dup := false
	for _, p := range c.Probes {
		var want []string
		for i, k := range f.Keys {
			if canon(k) == canon(p.value()) {
				want = append(want, canon(f.Values[i]))
			}
		}
		dup = dup || len(want) > 1
		v, ok := found.FindValue(p.value())
		if ok != (len(want) > 0) {
			return vlib.Fail("FindValue(%s) on keys %v (sorted %v) reports found=%v; a scan finds %d entries", canon(p.value()), keysOf(f), c.Sorted, ok, len(want))
		}
		if ok && !contains(want, canon(v)) {
			return vlib.Fail("FindValue(%s) on keys %v (sorted %v) returns the value of entry %s; the entries with that key are %v", canon(p.value()), keysOf(f), c.Sorted, canon(v), want)
		}
		var all []string
		for _, v := range found.FindValues(p.value(), nil) {
			all = append(all, canon(v))
		}
		sort.Strings(all)
		sort.Strings(want)
		if strings.Join(all, ",") != strings.Join(want, ",") {
			return vlib.Fail("FindValues(%s) on keys %v (sorted %v) returns entries %v; a scan finds %v", canon(p.value()), keysOf(f), c.Sorted, all, want)
		}
	}
	out := vlib.Outcome{NonTrivial: len(c.Keys) >= 3}
	if c.Sorted {
		out.Classes = append(out.Classes, "sorted")
	}
	if dup {
		out.Classes = append(out.Classes, "duplicate-keys")
	}
	if c.InWorld {
		out.Classes = append(out.Classes, "looked-up-in-world")
	}
	if len(c.Replaces) > 0 {
		out.Classes = append(out.Classes, "replaces-earlier-feature")
	}
	return out
}

func keysOf(f *ingest.CollectionFeature) []string {
	var out []string
	for _, k := range f.Keys {
		out = append(out, canon(k))
	}
	return out
}

func contains(l []string, s string) bool {
	for _, x := range l {
		if x == s {
			return true
		}
	}
	return false
}

func TestPropFunctions(t *testing.T) {
	vlib.Run(t, vlib.Config{ID: "C24", Name: "functions", CaseTimeout: 20e9,
		Rule: "collections of 0-7 items with keys of one kind (ints, floats, strings, feature IDs; duplicates common) and values of one or several kinds, built with collection/pair and given to collection, take, top, filter, map, map-items, flatten, sum-by-key, count-values, count-keys, join-missing (sorted int keys, repeats allowed) and count, with n from {-2,-1,0,1,2,3,5,100}, all evaluated by the VM with the real function library; oracle: each function's definition over lists (ordered where the documentation implies an order, as a multiset where the result comes from a map; top validated as some n items with the greatest values in descending order), and any reported count equals the number of items iteration yields; non-trivial = at least two input items"},
		gen, check)
}

func TestPropFind(t *testing.T) {
	vlib.Run(t, vlib.Config{ID: "C24", Name: "collection-feature-lookup", NoWAL: true,
		Rule: "collection features with 0-12 keys of one kind (duplicates common), sorted or not, directly or after being added to a mutable world (optionally replacing an earlier collection with the same ID, sorted or not), probed with 1-6 keys of that kind (present and absent); oracle: FindValue finds an entry exactly when a linear scan does, returning the value of one of the entries with that key, and FindValues returns all of them; non-trivial = at least three keys"},
		genFind, checkFind)
}
