// C25: map-parallel returns map's results for any core count and schedule.
package c25

import (
	"context"
	"fmt"
	"strings"
	"testing"
	"time"

	"diagonal.works/b6"
	"diagonal.works/b6/api"
	"diagonal.works/b6/api/functions"
	"diagonal.works/b6/ingest"
	"pgregory.net/rapid"
	"verif/vlib"
)

type Case struct {
	Items  int   `json:"items"`
	Cores  int   `json:"cores"`
	Delays []int `json:"delays"` // per item: microseconds the mapped function takes
	Fails  []int `json:"fails"`  // items on which the mapped function fails
	Fn     int   `json:"fn"`     // 0 the native function; 1 a lambda holding operands across nested calls; 2 a lambda returning a lazy collection; 3 a lambda reading a parameter of an enclosing lambda, map-parallel being called inside that lambda
}

func gen(t *rapid.T) Case {
	c := Case{Items: rapid.IntRange(0, 12).Draw(t, "items"), Cores: rapid.IntRange(2, 6).Draw(t, "cores"), Fn: rapid.IntRange(0, 3).Draw(t, "fn")}
	for i := 0; i < c.Items; i++ {
		c.Delays = append(c.Delays, rapid.SampledFrom([]int{0, 0, 50, 200, 1000, 3000}).Draw(t, "delay"))
	}
	if c.Items > 0 && rapid.IntRange(0, 2).Draw(t, "failing") == 0 {
		for i, n := 0, rapid.IntRange(1, 2).Draw(t, "nfails"); i < n; i++ {
			c.Fails = append(c.Fails, rapid.IntRange(0, c.Items-1).Draw(t, "fail"))
		}
	}
	return c
}

func value(i int) int { return i*7 + 3 }

// library returns the function library with two natives added: probe, which
// takes the item's delay and fails on the chosen items, and slow, which takes
// the delay of the item it is given and never fails.
func library(c Case) api.FunctionSymbols {
	fs := api.FunctionSymbols{}
	for name, f := range functions.Functions() {
		fs[name] = f
	}
	index := func(v int) int { return (v - 3) / 7 }
	wait := func(v int) {
		if i := index(v); i >= 0 && i < len(c.Delays) && c.Delays[i] > 0 {
			time.Sleep(time.Duration(c.Delays[i]) * time.Microsecond)
		}
	}
	fs["probe"] = func(ctx *api.Context, v int) (int, error) {
		wait(v)
		for _, f := range c.Fails {
			if f == index(v) {
				return 0, fmt.Errorf("probe fails on %d", v)
			}
		}
		return 2*v + 1, nil
	}
	fs["slow"] = func(ctx *api.Context, v int) (int, error) {
		wait(v)
		return v + 1000, nil
	}
	return fs
}

func sym(s string) b6.Expression { return b6.NewSymbolExpression(s) }
func call(f string, args ...b6.Expression) b6.Expression {
	return b6.NewCallExpression(sym(f), args)
}

func expression(c Case, mapper string) b6.Expression {
	pairs := make([]b6.Expression, c.Items)
	for i := range pairs {
		pairs[i] = call("pair", b6.NewStringExpression(fmt.Sprintf("k%d", i)), b6.NewIntExpression(value(i)))
	}
	var f b6.Expression
	switch c.Fn {
	case 0:
		f = sym("probe")
	case 1:
		// {x -> add-ints (slow x) (add-ints x (probe x))}: x and (slow x) stay on the stack across the calls
		f = b6.NewLambdaExpression([]string{"x"}, call("add-ints", call("slow", sym("x")), call("add-ints", sym("x"), call("probe", sym("x")))))
	case 3:
		// {a -> map-parallel <collection> {x -> add-ints a (probe x)}} 10: the mapped lambda reads the enclosing lambda's argument
		f = b6.NewLambdaExpression([]string{"x"}, call("add-ints", sym("a"), call("probe", sym("x"))))
		return b6.NewCallExpression(b6.NewLambdaExpression([]string{"a"}, call(mapper, call("collection", pairs...), f)), []b6.Expression{b6.NewIntExpression(10)})
	default:
		// {x -> map (collection (pair 0 x) (pair 1 (probe x))) {y -> add-ints y 1}}: a lazy collection per item
		f = b6.NewLambdaExpression([]string{"x"}, call("map", call("collection", call("pair", b6.NewIntExpression(0), sym("x")), call("pair", b6.NewIntExpression(1), call("probe", sym("x")))),
			b6.NewLambdaExpression([]string{"y"}, call("add-ints", sym("y"), b6.NewIntExpression(1)))))
	}
	return call(mapper, call("collection", pairs...), f)
}

// run evaluates the expression and reads its result as a client would: the outer
// collection to its end, and then any collections among its values.
func run(c Case, mapper string, cores int) (items []string, failure error, hung bool) {
	type outcome struct {
		items []string
		err   error
	}
	done := make(chan outcome, 1)
	go func() {
		ctx := &api.Context{World: ingest.NewBasicMutableWorld(), FunctionSymbols: library(c), Adaptors: functions.Adaptors(), Context: context.Background(), Cores: cores}
		v, err := api.Evaluate(expression(c, mapper), ctx)
		if err != nil {
			done <- outcome{nil, err}
			return
		}
		collection, ok := v.(b6.UntypedCollection)
		if !ok {
			done <- outcome{nil, fmt.Errorf("result is a %T", v)}
			return
		}
		var keys []string
		var values []interface{}
		i := collection.BeginUntyped()
		var iterErr error
		for {
			ok, err := i.Next()
			if err != nil {
				iterErr = err
				break
			}
			if !ok {
				break
			}
			keys = append(keys, fmt.Sprint(i.Key()))
			values = append(values, i.Value())
		}
		var out []string
		for j, v := range values {
			s := fmt.Sprint(v)
			if inner, ok := v.(b6.UntypedCollection); ok {
				var parts []string
				ii := inner.BeginUntyped()
				for {
					ok, err := ii.Next()
					if err != nil {
						parts = append(parts, "ERROR: "+err.Error())
						break
					}
					if !ok {
						break
					}
					parts = append(parts, fmt.Sprintf("%v:%v", ii.Key(), ii.Value()))
				}
				s = "{" + strings.Join(parts, " ") + "}"
			}
			out = append(out, keys[j]+"="+s)
		}
		done <- outcome{out, iterErr}
	}()
	select {
	case o := <-done:
		return o.items, o.err, false
	case <-time.After(10 * time.Second):
		return nil, nil, true
	}
}

func check(c Case) vlib.Outcome {
	if c.Items < 0 || c.Items > 40 || c.Cores < 2 || c.Cores > 16 || len(c.Delays) != c.Items || c.Fn < 0 || c.Fn > 3 {
		return vlib.Outcome{Skip: true}
	}
	firstFailure := c.Items
	for _, f := range c.Fails {
		if f < 0 || f >= c.Items {
			return vlib.Outcome{Skip: true}
		}
		if f < firstFailure {
			firstFailure = f
		}
	}
	for _, d := range c.Delays {
		if d < 0 || d > 20000 {
			return vlib.Outcome{Skip: true}
		}
	}
	want, wantErr, hung := run(c, "map", 1)
	if hung {
		return vlib.Fail("map over %d items doesn't finish", c.Items)
	}
	got, gotErr, hung := run(c, "map-parallel", c.Cores)
	what := fmt.Sprintf("map-parallel over %d items with %d cores (function %d, delays %v, failing items %v)", c.Items, c.Cores, c.Fn, c.Delays, c.Fails)
	if hung {
		return vlib.Fail("%s hasn't finished after 10s", what)
	}
	if len(c.Fails) == 0 {
		if gotErr != nil || wantErr != nil {
			return vlib.Fail("%s fails: %v (map: %v)", what, gotErr, wantErr)
		}
		if fmt.Sprint(got) != fmt.Sprint(want) {
			return vlib.Fail("%s yields %v; map yields %v", what, got, want)
		}
	} else {
		if wantErr == nil || len(want) != firstFailure {
			return vlib.Fail("map over %d items failing on %v yields %d items and the error %v", c.Items, c.Fails, len(want), wantErr)
		}
		if gotErr == nil {
			return vlib.Fail("%s yields %v and no error; map yields %v and then the error %q", what, got, want, wantErr)
		}
		if len(got) > len(want) || fmt.Sprint(got) != fmt.Sprint(want[:len(got)]) {
			return vlib.Fail("%s yields %v before its error, which isn't a prefix of map's %v", what, got, want)
		}
		if !strings.Contains(gotErr.Error(), "probe fails on") {
			return vlib.Fail("%s fails with %q, not with the mapped function's error (map: %q)", what, gotErr, wantErr)
		}
	}
	out := vlib.Outcome{NonTrivial: c.Items > c.Cores, Classes: []string{fmt.Sprintf("fn=%d", c.Fn)}}
	if len(c.Fails) > 0 {
		out.Classes = append(out.Classes, "failing-item")
	}
	return out
}

func TestProp(t *testing.T) {
	vlib.Run(t, vlib.Config{ID: "C25", Name: "map-parallel", CaseTimeout: 120e9,
		Rule: "collections of 0-12 items mapped with 2-6 cores by a native function, by a lambda that holds operands on the stack across nested calls, by a lambda returning a lazy collection per item, or by a lambda that reads the argument of an enclosing lambda inside which map-parallel is called; each item takes a generated time (0-3 ms) and 0-2 generated items fail; the outer result is read to its end and inner collections afterwards; oracle: map on the same input with one core: the same keys and values in the same order; with failing items a prefix of map's results followed by the mapped function's error; and completion within 10 s; non-trivial = more items than cores"},
		gen, check)
}
