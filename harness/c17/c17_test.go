// C17: worlds merged from several index files act as one world.
package c17

import (
	"encoding/json"
	"fmt"
	"strings"
	"testing"

	"diagonal.works/b6"
	"diagonal.works/b6/ingest"
	"diagonal.works/b6/ingest/compact"
	"pgregory.net/rapid"
	"verif/vlib"
	"verif/wm"
)

type Case struct {
	Files   [][]wm.FeatureS `json:"files"`   // file 0 is standalone; later files are standalone or overlays
	Overlay []bool          `json:"overlay"` // per file: built with BuildOverlayInMemory against the world merged so far
	Order   []int           `json:"order"`   // merge order (a permutation hint: sort keys)
}

var nsA = []string{string(b6.NamespaceOSMNode), string(b6.NamespaceOSMWay), string(b6.NamespaceOSMRelation)}
var nsB = []string{"diagonal.works/ns/b-points", "diagonal.works/ns/b-ways", "diagonal.works/ns/b-rels"}

func shift(fs []wm.FeatureS, by uint64) []wm.FeatureS {
	sh := func(id wm.FID) wm.FID { id.V += by; return id }
	out := make([]wm.FeatureS, 0, len(fs))
	for _, f := range fs {
		g := f.Clone()
		g.ID = sh(g.ID)
		for i := range g.Path {
			if g.Path[i].Ref != nil {
				r := sh(*g.Path[i].Ref)
				g.Path[i].Ref = &r
			}
		}
		for i := range g.Polys {
			p := g.Polys[i]
			p.Paths = append([]wm.FID{}, p.Paths...)
			for j := range p.Paths {
				p.Paths[j] = sh(p.Paths[j])
			}
			g.Polys[i] = p
		}
		for i := range g.Members {
			g.Members[i].ID = sh(g.Members[i].ID)
		}
		if g.Point != nil {
			ll := wm.LL{Lat: g.Point.Lat + int32(by)*13, Lng: g.Point.Lng + int32(by)*17}
			g.Point = &ll
		}
		out = append(out, g)
	}
	return out
}

func gen(t *rapid.T) Case {
	typed := func(ns []string) [][]string { return [][]string{{ns[0]}, {ns[1]}, {ns[1]}, {ns[2]}} }
	cfg := wm.GenConfig{MaxPoints: 5, MaxPaths: 3, MaxLoops: 2, MaxAreas: 2, MaxRelations: 2, Namespaces: nsA, TypedNamespaces: typed(nsA)}
	base := wm.GenSet(t, cfg)
	c := Case{Files: [][]wm.FeatureS{base.Features}, Overlay: []bool{false}}
	n := rapid.IntRange(1, 3).Draw(t, "nfiles")
	var basePoints, baseAll []wm.FID
	var baseLoops []wm.FeatureS
	for _, f := range base.Features {
		baseAll = append(baseAll, f.ID)
		switch {
		case f.Point != nil:
			basePoints = append(basePoints, f.ID)
		case len(f.Path) > 2 && f.Path[0].Ref != nil && f.Path[len(f.Path)-1].Ref != nil && *f.Path[0].Ref == *f.Path[len(f.Path)-1].Ref:
			baseLoops = append(baseLoops, f)
		}
	}
	for i := 0; i < n; i++ {
		switch rapid.SampledFrom([]int{0, 0, 1, 1, 2, 2, 2, 3}).Draw(t, "filekind") {
		case 3: // an overlapping extract: identical copies of some of the base file's points, plus points of its own
			var fs []wm.FeatureS
			for _, f := range base.Features {
				if f.Point != nil && rapid.Bool().Draw(t, "shared") {
					fs = append(fs, f.Clone())
				}
			}
			cfgP := cfg
			cfgP.MaxPaths, cfgP.MaxLoops, cfgP.MaxAreas, cfgP.MaxRelations = 0, 0, 0, 0
			fs = append(fs, shift(wm.GenSet(t, cfgP).Features, uint64(1000*(i+1)))...)
			if len(fs) == 0 {
				continue
			}
			c.Files = append(c.Files, fs)
			c.Overlay = append(c.Overlay, false)
		case 0: // other namespaces
			cfgB := cfg
			cfgB.Namespaces, cfgB.TypedNamespaces = nsB, typed(nsB)
			c.Files = append(c.Files, shift(wm.GenSet(t, cfgB).Features, uint64(1000*(i+1))))
			c.Overlay = append(c.Overlay, false)
		case 1: // the same namespaces, other IDs
			c.Files = append(c.Files, shift(wm.GenSet(t, cfg).Features, uint64(1000*(i+1))))
			c.Overlay = append(c.Overlay, false)
		default: // an overlay: paths, areas and relations over the base file's features
			var fs []wm.FeatureS
			np := rapid.IntRange(1, 3).Draw(t, "noverlaypaths")
			for j := 0; j < np && len(basePoints) >= 2; j++ {
				a := rapid.IntRange(0, len(basePoints)-1).Draw(t, "a")
				b := (a + 1 + rapid.IntRange(0, len(basePoints)-2).Draw(t, "b")) % len(basePoints)
				pa, pb := basePoints[a], basePoints[b]
				fs = append(fs, wm.FeatureS{ID: wm.FID{T: 1, NS: nsA[1], V: uint64(5000 + 100*i + j)}, Tags: []wm.TagS{{K: "#highway", V: "overlay"}}, Path: []wm.PathEl{{Ref: &pa}, {Ref: &pb}}})
			}
			if len(baseLoops) > 0 && rapid.Bool().Draw(t, "overlayarea") {
				// an overlay area is bounded by a closed overlay path over the base's points: the
				// overlay builder only accepts areas whose paths are in the same source
				loop := rapid.SampledFrom(baseLoops).Draw(t, "loop")
				id := wm.FID{T: 1, NS: nsA[1], V: uint64(5050 + 100*i)}
				fs = append(fs, wm.FeatureS{ID: id, Tags: []wm.TagS{{K: "#barrier", V: "overlay"}}, Path: append([]wm.PathEl{}, loop.Path...)})
				fs = append(fs, wm.FeatureS{ID: wm.FID{T: 2, NS: nsA[1], V: uint64(5050 + 100*i)}, Tags: []wm.TagS{{K: "#building", V: "overlay"}}, Polys: []wm.PolyS{{Paths: []wm.FID{id}}}})
			}
			if rapid.Bool().Draw(t, "overlayrel") {
				var ms []wm.MemberS
				for j, m := 0, rapid.IntRange(1, 3).Draw(t, "nmembers"); j < m; j++ {
					ms = append(ms, wm.MemberS{ID: rapid.SampledFrom(baseAll).Draw(t, "member"), Role: "x"})
				}
				fs = append(fs, wm.FeatureS{ID: wm.FID{T: 3, NS: nsA[2], V: uint64(5000 + 100*i)}, Tags: []wm.TagS{{K: "#amenity", V: "overlay"}}, Members: ms})
			}
			if len(fs) == 0 {
				continue
			}
			c.Files = append(c.Files, fs)
			c.Overlay = append(c.Overlay, true)
		}
	}
	for range c.Files {
		c.Order = append(c.Order, rapid.IntRange(0, 100).Draw(t, "order"))
	}
	return c
}

func check(c Case) vlib.Outcome {
	if len(c.Files) < 2 || len(c.Overlay) != len(c.Files) || len(c.Order) != len(c.Files) || c.Overlay[0] {
		return vlib.Outcome{Skip: true}
	}
	var all []wm.FeatureS
	seen := map[b6.FeatureID]string{}
	overlapping := false
	for _, fs := range c.Files {
		inFile := map[b6.FeatureID]bool{}
		for _, f := range fs {
			// the same point may be in several files (overlapping extracts), as identical copies
			js, _ := json.Marshal(f)
			if prev, ok := seen[f.ID.ID()]; ok {
				if prev != string(js) || f.Point == nil || inFile[f.ID.ID()] {
					return vlib.Outcome{Skip: true, Classes: []string{"skipped:duplicate-id"}}
				}
				overlapping = true
				continue
			}
			seen[f.ID.ID()], inFile[f.ID.ID()] = string(js), true
			all = append(all, f)
		}
	}
	if _, err := wm.BuildBasic(all, 1, true); err != nil {
		return vlib.Outcome{Skip: true, Classes: []string{"skipped:set-not-valid"}}
	}
	single, err := wm.BuildCompact(all, 1)
	if err != nil {
		return vlib.Fail("single compact build failed: %v", err)
	}
	// build each file; overlays are built against the base file's world
	baseData, err := wm.BuildCompactData(c.Files[0], 1)
	if err != nil {
		return vlib.Fail("building file 0 failed: %v", err)
	}
	baseWorld, err := compact.NewWorldFromData(baseData)
	if err != nil {
		return vlib.Fail("loading file 0 failed: %v", err)
	}
	datas := [][]byte{baseData}
	for i := 1; i < len(c.Files); i++ {
		var data []byte
		if c.Overlay[i] {
			data, err = compact.BuildOverlayInMemory(ingest.MemoryFeatureSource(wm.Features(c.Files[i])), &compact.Options{Goroutines: 1, PointsScratchOutputType: compact.OutputTypeMemory}, baseWorld)
		} else {
			data, err = wm.BuildCompactData(c.Files[i], 1)
		}
		if err != nil {
			return vlib.Fail("building file %d (overlay=%v) failed: %v", i, c.Overlay[i], err)
		}
		datas = append(datas, data)
	}
	idx := make([]int, len(datas))
	for i := range idx {
		idx[i] = i
	}
	for i := 1; i < len(idx); i++ {
		for j := i; j > 0 && c.Order[idx[j]] < c.Order[idx[j-1]]; j-- {
			idx[j], idx[j-1] = idx[j-1], idx[j]
		}
	}
	merged := compact.NewWorld()
	for _, i := range idx {
		if err := merged.Merge(datas[i]); err != nil {
			return vlib.Fail("Merge of file %d failed: %v", i, err)
		}
	}
	set := wm.Set{Features: all}
	probes := set.Probes()
	queries := []b6.Query{b6.All{}, b6.Keyed{Key: "#amenity"}, b6.Keyed{Key: "#highway"}, b6.Keyed{Key: "#building"}, b6.Keyed{Key: "@wikidata"},
		b6.Tagged{Key: "#highway", Value: b6.NewStringExpression("overlay")}, b6.Typed{Type: b6.FeatureTypePath, Query: b6.All{}}, b6.Typed{Type: b6.FeatureTypeArea, Query: b6.All{}}}
	var lls []wm.LL
	for _, f := range all {
		if f.Point != nil {
			lls = append(lls, *f.Point)
		}
	}
	queries = append(queries, wm.SpatialQueries(lls)...)
	o := wm.ObserveOptions{}
	want, got := wm.Observe(single, probes, queries, o), wm.Observe(merged, probes, queries, o)
	if vlib.Known("c17-reverse-references-across-files") {
		// known finding: reverse reference queries (referrers, relations and areas of a feature) are
		// not answered completely across merged files; lookups, geometry resolved through other files,
		// ordered searches, traversal and enumeration are still compared exactly
		// but what the merged world does report must be right: a subset of the single build's
		// answer, and never a panic
		for k, w := range want {
			if strings.HasPrefix(k, "references ") || strings.HasPrefix(k, "relations ") || strings.HasPrefix(k, "areas ") {
				in := map[string]bool{}
				for _, item := range strings.Fields(w) {
					in[item] = true
				}
				ok := !strings.Contains(got[k], "PANIC")
				for _, item := range strings.Fields(got[k]) {
					ok = ok && in[item]
				}
				if ok {
					got[k] = w
				}
			}
		}
	}
	if overlapping {
		// the quantifier is over partitions; for points held by several files only what the
		// statement says of them is demanded: lookups by ID, and searches in ID order without duplicates
		for k := range want {
			if !(strings.HasPrefix(k, "has ") || strings.HasPrefix(k, "feature ") || strings.HasPrefix(k, "location ") || strings.HasPrefix(k, "find ") || strings.HasPrefix(k, "find-features ")) {
				delete(want, k)
				delete(got, k)
			}
		}
	}
	if d := wm.Diff(want, got, "single build", "merged files"); d != "" {
		return vlib.Fail("world merged from %d files (overlay %v, merge order %v) differs from a single index of the same features:\n%s", len(c.Files), c.Overlay, idx, d)
	}
	hasOverlay, sharedNS := false, false
	for i := 1; i < len(c.Files); i++ {
		hasOverlay = hasOverlay || c.Overlay[i]
		if !c.Overlay[i] && len(c.Files[i]) > 0 && c.Files[i][0].ID.NS == c.Files[0][0].ID.NS {
			sharedNS = true
		}
	}
	out := vlib.Outcome{NonTrivial: hasOverlay || sharedNS || overlapping, Classes: []string{fmt.Sprintf("files=%d", len(c.Files))}}
	if hasOverlay {
		out.Classes = append(out.Classes, "overlay-file")
	}
	if sharedNS {
		out.Classes = append(out.Classes, "namespace-split-across-files")
	}
	if overlapping {
		out.Classes = append(out.Classes, "point-in-several-files")
	}
	if idx[0] != 0 {
		out.Classes = append(out.Classes, "base-not-merged-first")
	}
	return out
}

func TestProp(t *testing.T) {
	vlib.Run(t, vlib.Config{ID: "C17", Name: "merged-files", CaseTimeout: 240e9,
		Rule: "a generated valid base file plus 1-3 further files: independent sets in other namespaces, independent sets in the same namespaces with other IDs, overlapping extracts (identical copies of some base points plus points of their own; for these only lookups by ID and searches are compared, since the quantifier is over partitions), or overlay files (paths over base points, areas over base closed paths, relations over base features) built with BuildOverlayInMemory against the base world; all merged into one compact world in a generated order; oracle: the canonical observation of every read query equals that of a single compact index built from all the features; non-trivial = a namespace split across files, an overlay file or a point held by several files"},
		gen, check)
}
