// C15: reference queries return the current referrers and always terminate.
package c15

import (
	"fmt"
	"sort"
	"strings"
	"testing"

	"diagonal.works/b6"
	"diagonal.works/b6/ingest"
	"pgregory.net/rapid"
	"verif/vlib"
	"verif/wm"
)

type Op struct {
	Kind    string `json:"op"`      // addrel, replacerel, addcoll
	Target  int    `json:"target"`  // for replacerel: which relation
	Members []int  `json:"members"` // indices into the list of known IDs (modulo); -1 = the feature itself
}

type Case struct {
	Set   wm.Set `json:"set"`
	World string `json:"world"` // basic, mutable, overlay
	Ops   []Op   `json:"ops"`
}

func gen(t *rapid.T) Case {
	c := Case{
		Set: wm.GenSet(t, wm.GenConfig{MaxPoints: 4, MaxPaths: 3, MaxLoops: 1, MaxAreas: 2, MaxRelations: 3, SelfMembers: true, Collections: 2,
			Namespaces: []string{string(b6.NamespaceOSMNode), string(b6.NamespaceOSMWay), string(b6.NamespaceOSMRelation)}}),
		World: rapid.SampledFrom([]string{"basic", "mutable", "mutable", "overlay", "overlay"}).Draw(t, "world"),
	}
	n := rapid.IntRange(0, 8).Draw(t, "nops")
	for i := 0; i < n; i++ {
		op := Op{Kind: rapid.SampledFrom([]string{"addrel", "addrel", "replacerel", "replacerel", "addcoll", "newpoint", "replacepath", "replacepath"}).Draw(t, "kind"), Target: rapid.IntRange(0, 20).Draw(t, "target")}
		nm := rapid.IntRange(0, 4).Draw(t, "nmembers")
		for j := 0; j < nm; j++ {
			if rapid.IntRange(0, 5).Draw(t, "self") == 0 {
				op.Members = append(op.Members, -1)
			} else if rapid.IntRange(0, 2).Draw(t, "recent") == 0 {
				op.Members = append(op.Members, 1000+rapid.IntRange(0, 5).Draw(t, "recentidx")) // one of the most recently added features
			} else {
				op.Members = append(op.Members, rapid.IntRange(0, 40).Draw(t, "member"))
			}
		}
		c.Ops = append(c.Ops, op)
	}
	return c
}

func directRefs(f wm.FeatureS) []b6.FeatureID {
	var out []b6.FeatureID
	for _, e := range f.Path {
		if e.Ref != nil {
			out = append(out, e.Ref.ID())
		}
	}
	for _, p := range f.Polys {
		for _, id := range p.Paths {
			out = append(out, id.ID())
		}
	}
	for _, m := range f.Members {
		out = append(out, m.ID.ID())
	}
	for _, k := range f.Keys {
		if k.ID != nil {
			out = append(out, k.ID.ID())
		}
	}
	return out
}

// expected computes the features that reference id directly or through a chain, each once.
func expected(id b6.FeatureID, current map[b6.FeatureID]wm.FeatureS, types ...b6.FeatureType) []string {
	reverse := map[b6.FeatureID][]b6.FeatureID{}
	for fid, f := range current {
		for _, r := range directRefs(f) {
			reverse[r] = append(reverse[r], fid)
		}
	}
	visited := map[b6.FeatureID]bool{}
	queue := []b6.FeatureID{id}
	for len(queue) > 0 {
		x := queue[0]
		queue = queue[1:]
		for _, r := range reverse[x] {
			if !visited[r] {
				visited[r] = true
				queue = append(queue, r)
			}
		}
	}
	var out []string
	for r := range visited {
		ok := len(types) == 0
		for _, t := range types {
			if r.Type == t {
				ok = true
			}
		}
		if ok {
			out = append(out, r.String())
		}
	}
	sort.Strings(out)
	return out
}

func hasCycle(current map[b6.FeatureID]wm.FeatureS) bool {
	for id := range current {
		for _, r := range expected(id, current) {
			if r == id.String() {
				return true
			}
		}
	}
	return false
}

func ids(fs b6.Features) []string {
	var out []string
	for fs.Next() {
		out = append(out, fs.FeatureID().String())
	}
	sort.Strings(out)
	return out
}

func check(c Case) vlib.Outcome {
	if len(c.Set.Features) == 0 {
		return vlib.Outcome{Skip: true}
	}
	current := map[b6.FeatureID]wm.FeatureS{}
	var order []b6.FeatureID
	for _, f := range c.Set.Features {
		current[f.ID.ID()] = f
		order = append(order, f.ID.ID())
	}
	// resolve ops into feature specs
	type edit struct {
		spec     wm.FeatureS
		replaced bool
	}
	var edits []edit
	nextNew := 0
	relations := func() []b6.FeatureID {
		var out []b6.FeatureID
		for _, id := range order {
			if id.Type == b6.FeatureTypeRelation {
				out = append(out, id)
			}
		}
		return out
	}
	for _, op := range c.Ops {
		if op.Target < 0 {
			return vlib.Outcome{Skip: true}
		}
		var spec wm.FeatureS
		replaced := false
		switch op.Kind {
		case "addrel":
			nextNew++
			spec = wm.FeatureS{ID: wm.FID{T: 3, NS: "diagonal.works/ns/new", V: uint64(nextNew)}}
		case "addcoll":
			nextNew++
			spec = wm.FeatureS{ID: wm.FID{T: 4, NS: "diagonal.works/ns/new", V: uint64(nextNew)}}
		case "newpoint":
			nextNew++
			ll := wm.LL{Lat: 515400000 + int32(nextNew*977), Lng: -1300000 + int32(nextNew*1013)}
			spec = wm.FeatureS{ID: wm.FID{T: 0, NS: "diagonal.works/ns/new", V: uint64(nextNew)}, Point: &ll}
			op.Members = nil
		case "replacepath":
			// an open path that no area uses gets a new list of points
			var open []b6.FeatureID
			under := map[b6.FeatureID]bool{}
			for _, f := range current {
				for _, p := range f.Polys {
					for _, pid := range p.Paths {
						under[pid.ID()] = true
					}
				}
			}
			for _, id := range order {
				f := current[id]
				if id.Type == b6.FeatureTypePath && !under[id] && len(f.Path) >= 2 && !(f.Path[0].Ref != nil && f.Path[len(f.Path)-1].Ref != nil && *f.Path[0].Ref == *f.Path[len(f.Path)-1].Ref) {
					open = append(open, id)
				}
			}
			var points []b6.FeatureID
			for _, id := range order {
				if id.Type == b6.FeatureTypePoint {
					points = append(points, id)
				}
			}
			if len(open) == 0 || len(points) < 2 {
				continue
			}
			spec = wm.FeatureS{ID: wm.FromID(open[op.Target%len(open)])}
			spec.Tags = current[spec.ID.ID()].Tags
			var last b6.FeatureID
			for _, m := range op.Members {
				var pid b6.FeatureID
				if m >= 1000 {
					pid = points[len(points)-1-(m-1000)%len(points)]
				} else if m >= 0 {
					pid = points[m%len(points)]
				} else {
					continue
				}
				if pid == last {
					continue
				}
				last = pid
				fid := wm.FromID(pid)
				spec.Path = append(spec.Path, wm.PathEl{Ref: &fid})
			}
			if len(spec.Path) < 2 || *spec.Path[0].Ref == *spec.Path[len(spec.Path)-1].Ref {
				continue
			}
			op.Members = nil
			replaced = true
		case "replacerel":
			rs := relations()
			if len(rs) == 0 {
				continue
			}
			spec = wm.FeatureS{ID: wm.FromID(rs[op.Target%len(rs)])}
			spec.Tags = current[spec.ID.ID()].Tags
			replaced = true
		default:
			return vlib.Outcome{Skip: true}
		}
		for _, m := range op.Members {
			var mid b6.FeatureID
			switch {
			case m == -1:
				mid = spec.ID.ID()
			case m >= 1000:
				mid = order[len(order)-1-(m-1000)%len(order)]
			case m >= 0:
				mid = order[m%len(order)]
			default:
				return vlib.Outcome{Skip: true}
			}
			fid := wm.FromID(mid)
			if spec.ID.ID().Type == b6.FeatureTypeCollection {
				v := len(spec.Keys)
				spec.Keys = append(spec.Keys, wm.CollEl{ID: &fid})
				spec.Values = append(spec.Values, wm.CollEl{Int: &v})
			} else {
				spec.Members = append(spec.Members, wm.MemberS{ID: fid})
			}
		}
		if _, ok := current[spec.ID.ID()]; !ok {
			order = append(order, spec.ID.ID())
		}
		current[spec.ID.ID()] = spec
		edits = append(edits, edit{spec, replaced})
	}

	staleKnown := vlib.Known("c15-overlay-stale-base-referrers")
	var w b6.World
	replacedReferrer := false
	relaxed := false // known finding: the overlay may report stale referrers that only hold in the base
	union := map[b6.FeatureID]wm.FeatureS{}
	switch c.World {
	case "basic":
		var all []wm.FeatureS
		for _, id := range order {
			all = append(all, current[id])
		}
		b, err := wm.BuildBasic(all, 1, true)
		if err != nil {
			return vlib.Outcome{Skip: true, Classes: []string{"skipped:set-not-valid"}}
		}
		w = b
	case "mutable", "overlay":
		var m ingest.MutableWorld
		baseIDs := map[b6.FeatureID]bool{}
		if c.World == "mutable" {
			mw, err := wm.BuildMutable(c.Set.Features)
			if err != nil {
				return vlib.Outcome{Skip: true, Classes: []string{"skipped:set-not-valid"}}
			}
			m = mw
		} else {
			base, err := wm.BuildBasic(c.Set.Features, 1, true)
			if err != nil {
				return vlib.Outcome{Skip: true, Classes: []string{"skipped:set-not-valid"}}
			}
			for _, f := range c.Set.Features {
				baseIDs[f.ID.ID()] = true
			}
			m = ingest.NewMutableOverlayWorld(base)
		}
		for _, e := range edits {
			if e.replaced {
				replacedReferrer = true
				if staleKnown && baseIDs[e.spec.ID.ID()] {
					relaxed = true
				}
			}
			if err := m.AddFeature(wm.ToIngest(e.spec)); err != nil {
				return vlib.Fail("AddFeature(%v) of a valid relation/collection failed: %v", e.spec.ID.ID(), err)
			}
		}
		w = m
	default:
		return vlib.Outcome{Skip: true}
	}

	for id, f := range current {
		u := wm.FeatureS{ID: f.ID}
		for _, r := range directRefs(f) {
			u.Members = append(u.Members, wm.MemberS{ID: wm.FromID(r)})
		}
		union[id] = u
	}
	for _, f := range c.Set.Features {
		u := union[f.ID.ID()]
		u.ID = f.ID
		for _, r := range directRefs(f) {
			u.Members = append(u.Members, wm.MemberS{ID: wm.FromID(r)})
		}
		union[f.ID.ID()] = u
	}
	probes := append([]b6.FeatureID{}, order...)
	probes = append(probes, b6.FeatureID{Type: b6.FeatureTypePoint, Namespace: b6.NamespaceOSMNode, Value: 424242})
	for _, id := range probes {
		cmp := func(what string, got []string, types ...b6.FeatureType) error {
			want := expected(id, current, types...)
			if relaxed && fmt.Sprint(got) != fmt.Sprint(want) {
				// every current referrer must be there, once; extras must at least be referrers
				// through base or current edges
				allowed := map[string]bool{}
				for _, a := range expected(id, union, types...) {
					allowed[a] = true
				}
				seen := map[string]bool{}
				ok := true
				for _, g := range got {
					if seen[g] || !allowed[g] {
						ok = false
					}
					seen[g] = true
				}
				for _, w := range want {
					if !seen[w] {
						ok = false
					}
				}
				if ok {
					return nil
				}
			}
			if fmt.Sprint(got) != fmt.Sprint(want) {
				return fmt.Errorf("%s(%v) = [%s], the features currently referencing it (directly or through a chain), each once, are [%s]", what, id, strings.Join(got, " "), strings.Join(want, " "))
			}
			return nil
		}
		if err := cmp("FindReferences", ids(w.FindReferences(id))); err != nil {
			return vlib.Outcome{Err: err}
		}
		for _, t := range []b6.FeatureType{b6.FeatureTypePath, b6.FeatureTypeArea, b6.FeatureTypeRelation, b6.FeatureTypeCollection} {
			if err := cmp(fmt.Sprintf("FindReferences typed %v", t), ids(w.FindReferences(id, t)), t); err != nil {
				return vlib.Outcome{Err: err}
			}
		}
		var rels, colls, areas []string
		for rs := w.FindRelationsByFeature(id); rs.Next(); {
			rels = append(rels, rs.FeatureID().String())
		}
		for cs := w.FindCollectionsByFeature(id); cs.Next(); {
			colls = append(colls, cs.FeatureID().String())
		}
		sort.Strings(rels)
		sort.Strings(colls)
		if err := cmp("FindRelationsByFeature", rels, b6.FeatureTypeRelation); err != nil {
			return vlib.Outcome{Err: err}
		}
		if err := cmp("FindCollectionsByFeature", colls, b6.FeatureTypeCollection); err != nil {
			return vlib.Outcome{Err: err}
		}
		if id.Type == b6.FeatureTypePoint {
			for as := w.FindAreasByPoint(id); as.Next(); {
				areas = append(areas, as.FeatureID().String())
			}
			sort.Strings(areas)
			if err := cmp("FindAreasByPoint", areas, b6.FeatureTypeArea); err != nil {
				return vlib.Outcome{Err: err}
			}
		}
	}
	cyc := hasCycle(current)
	out := vlib.Outcome{NonTrivial: cyc || replacedReferrer, Classes: []string{"world=" + c.World}}
	if relaxed {
		out.Classes = append(out.Classes, "relaxed:c15-overlay-stale-base-referrers")
	}
	if cyc {
		out.Classes = append(out.Classes, "cycle")
	}
	if replacedReferrer {
		out.Classes = append(out.Classes, "replaced-referrer")
	}
	return out
}

func TestProp(t *testing.T) {
	vlib.Run(t, vlib.Config{ID: "C15", Name: "references", CaseTimeout: 20e9,
		Rule: "a generated valid set (points, paths, closed paths, areas, relations incl. relations of relations, collections keyed by feature IDs) plus 0-8 edits that add relations/collections over any existing feature, itself (self-reference) or recently added features (mutual cycles), or replace the members of an existing relation; held in a basic world (everything given at build time), a BasicMutableWorld, or a MutableOverlayWorld over a basic base (referrers in base, overlay or both); FindReferences (untyped and per type), FindRelationsByFeature, FindCollectionsByFeature and FindAreasByPoint for every ID are compared with reverse reachability over the current features computed with a visited set; a 20 s watchdog and process-crash capture decide termination; non-trivial = the reference graph has a cycle or a referrer was replaced"},
		gen, check)
}
