// C19: expressions survive the client/server wire format.
package c19

import (
	"fmt"
	"math"
	"testing"

	"diagonal.works/b6"
	"diagonal.works/b6/geometry"
	pb "diagonal.works/b6/proto"
	"github.com/golang/geo/s1"
	"github.com/golang/geo/s2"
	"google.golang.org/protobuf/proto"
	"google.golang.org/protobuf/reflect/protoreflect"
	"pgregory.net/rapid"
	"verif/gen"
	"verif/vlib"
	"verif/wm"
)

type LL [2]int32 // lat, lng E7

type QueryS struct {
	Kind   string   `json:"kind"` // all keyed tagged typed and or cap feature point polyline multipolygon
	Key    string   `json:"key,omitempty"`
	Value  string   `json:"value,omitempty"`
	Type   int      `json:"type,omitempty"`
	Sub    []QueryS `json:"sub,omitempty"`
	ID     *wm.FID  `json:"id,omitempty"`
	LL     *LL      `json:"ll,omitempty"`
	Radius float64  `json:"radius,omitempty"`
	Points []LL     `json:"points,omitempty"`
	Polys  [][][]LL `json:"polys,omitempty"`
}

type StepS struct {
	Destination wm.FID  `json:"destination"`
	Via         wm.FID  `json:"via"`
	Cost        float64 `json:"cost"`
}

type ExprS struct {
	Kind  string `json:"kind"`
	Name  string `json:"name,omitempty"`
	Begin int    `json:"begin,omitempty"`
	End   int    `json:"end,omitempty"`

	Sym       string   `json:"sym,omitempty"`
	Int       int64    `json:"int,omitempty,string"`
	FloatBits uint64   `json:"float_bits,omitempty,string"`
	Bool      bool     `json:"bool,omitempty"`
	Str       string   `json:"str,omitempty"`
	ID        *wm.FID  `json:"id,omitempty"`
	Query     *QueryS  `json:"query,omitempty"`
	LL        *LL      `json:"ll,omitempty"`
	Points    []LL     `json:"points,omitempty"`
	Polys     [][][]LL `json:"polys,omitempty"` // polygons > loops (first the shell, then holes, all counterclockwise) > vertices
	Keys      []ExprS  `json:"keys,omitempty"`
	Values    []ExprS  `json:"values,omitempty"`
	Origin    *wm.FID  `json:"origin,omitempty"`
	Steps     []StepS  `json:"steps,omitempty"`
	Fn        *ExprS   `json:"fn,omitempty"`
	Args      []ExprS  `json:"args,omitempty"`
	Pipelined bool     `json:"pipelined,omitempty"`
	Params    []string `json:"params,omitempty"`
	Body      *ExprS   `json:"body,omitempty"`
}

type Case struct {
	E ExprS `json:"e"`
}

// ---------------------------------------------------------------------------
// generators

var namespaces = []string{string(b6.NamespaceOSMNode), string(b6.NamespaceOSMWay), "diagonal.works/test", "", "a/b c"}
var symbols = []string{"find", "tagged", "pair", "collection", "map", "x", "f", "add-tag", "", "with space", "π"}
var strs = []string{"", "a", "highway", "51.5,-0.1", "/n/123", "42", "true", "\"quoted\"", "multi\nline", "日本"}

func genFID(t *rapid.T) wm.FID {
	return wm.FID{T: rapid.IntRange(0, 4).Draw(t, "idtype"), NS: rapid.SampledFrom(namespaces).Draw(t, "ns"), V: gen.U64().Draw(t, "idvalue")}
}

func genLL(t *rapid.T) LL {
	if rapid.IntRange(0, 5).Draw(t, "llextreme") == 0 {
		return LL{rapid.SampledFrom([]int32{-900000000, 900000000, 0, 1, -1}).Draw(t, "lat"), rapid.SampledFrom([]int32{-1800000000, 1800000000, 0, 1, -1}).Draw(t, "lng")}
	}
	return LL{int32(rapid.IntRange(-850000000, 850000000).Draw(t, "lat")), int32(rapid.IntRange(-1799999999, 1799999999).Draw(t, "lng"))}
}

// genLoop generates a small counterclockwise star-shaped loop around c.
func genLoop(t *rapid.T, c LL, r int32) []LL {
	n := rapid.IntRange(3, 6).Draw(t, "nvertices")
	phase := rapid.Float64Range(0, 2*math.Pi).Draw(t, "phase")
	var out []LL
	for i := 0; i < n; i++ {
		a := phase + 2*math.Pi*float64(i)/float64(n)
		d := float64(r) * rapid.Float64Range(0.8, 1).Draw(t, "d")
		out = append(out, LL{c[0] + int32(d*math.Sin(a)), c[1] + int32(d*math.Cos(a))})
	}
	return out
}

func genPolys(t *rapid.T) [][][]LL {
	var out [][][]LL
	for i, n := 0, rapid.IntRange(1, 2).Draw(t, "npolys"); i < n; i++ {
		c := LL{int32(rapid.IntRange(-600000000, 600000000).Draw(t, "clat")), int32(rapid.IntRange(-1700000000, 1700000000).Draw(t, "clng")) + int32(i)*20000000}
		r := int32(rapid.IntRange(1000, 5000000).Draw(t, "r"))
		p := [][]LL{genLoop(t, c, r)}
		if r > 100000 && rapid.IntRange(0, 2).Draw(t, "hole") == 0 {
			p = append(p, genLoop(t, c, r/4))
		}
		out = append(out, p)
	}
	return out
}

func genPoints(t *rapid.T) []LL {
	var out []LL
	for i, n := 0, rapid.IntRange(0, 5).Draw(t, "npoints"); i < n; i++ {
		out = append(out, genLL(t))
	}
	return out
}

func genQuery(t *rapid.T, depth int) QueryS {
	kinds := []string{"all", "keyed", "tagged", "cap", "feature", "point", "polyline", "multipolygon"}
	if depth > 0 {
		kinds = append(kinds, "typed", "typed", "and", "and", "or", "or")
	}
	q := QueryS{Kind: rapid.SampledFrom(kinds).Draw(t, "qkind")}
	switch q.Kind {
	case "keyed":
		q.Key = rapid.SampledFrom([]string{"#highway", "name", "", "@id", "#a=b"}).Draw(t, "key")
	case "tagged":
		q.Key = rapid.SampledFrom([]string{"#highway", "name", "", "#a=b"}).Draw(t, "key")
		q.Value = rapid.SampledFrom(strs).Draw(t, "value")
	case "typed":
		q.Type = rapid.IntRange(0, 5).Draw(t, "type")
		q.Sub = []QueryS{genQuery(t, depth-1)}
	case "and", "or":
		for i, n := 0, rapid.IntRange(0, 3).Draw(t, "nsub"); i < n; i++ {
			q.Sub = append(q.Sub, genQuery(t, depth-1))
		}
	case "cap":
		ll := genLL(t)
		q.LL = &ll
		q.Radius = rapid.SampledFrom([]float64{0, 1, 100, 500.5, 1e4, 1e6}).Draw(t, "radius")
	case "feature":
		id := genFID(t)
		q.ID = &id
	case "point":
		ll := genLL(t)
		q.LL = &ll
	case "polyline":
		q.Points = genPoints(t)
	case "multipolygon":
		q.Polys = genPolys(t)
	}
	return q
}

func genLiteral(t *rapid.T, depth int) ExprS {
	kinds := []string{"int", "int", "float", "bool", "str", "str", "id", "tag", "query", "point", "path", "area", "nil", "route"}
	if depth > 0 {
		kinds = append(kinds, "coll", "coll")
	}
	if depth < 2 {
		// inside a collection: b6 has no literal form for a query held as a collection's key or value
		kinds = kinds[:0]
		for _, k := range []string{"int", "int", "float", "bool", "str", "str", "id", "tag", "point", "path", "area", "nil", "route"} {
			kinds = append(kinds, k)
		}
		if depth > 0 {
			kinds = append(kinds, "coll")
		}
	}
	e := ExprS{Kind: rapid.SampledFrom(kinds).Draw(t, "kind")}
	switch e.Kind {
	case "int":
		e.Int = gen.I64().Draw(t, "int")
	case "float":
		e.FloatBits = rapid.OneOf(rapid.Just(math.Float64bits(0.5)), rapid.Map(rapid.Float64(), math.Float64bits),
			rapid.SampledFrom([]uint64{math.Float64bits(math.NaN()), math.Float64bits(math.Inf(1)), math.Float64bits(math.Inf(-1)), 1 << 63, 1, math.Float64bits(math.MaxFloat64), math.Float64bits(1e-7), math.Float64bits(51.5)})).Draw(t, "float")
	case "bool":
		e.Bool = rapid.Bool().Draw(t, "bool")
	case "str":
		e.Str = rapid.OneOf(rapid.SampledFrom(strs), rapid.String()).Draw(t, "str")
	case "id":
		id := genFID(t)
		e.ID = &id
	case "tag":
		e.Sym = rapid.SampledFrom([]string{"#highway", "name", "", "a:b"}).Draw(t, "tagkey")
		e.Str = rapid.SampledFrom(strs).Draw(t, "tagvalue")
	case "query":
		q := genQuery(t, 2)
		e.Query = &q
	case "point":
		ll := genLL(t)
		e.LL = &ll
	case "path":
		e.Points = genPoints(t)
		if depth < 2 && len(e.Points) == 0 {
			e.Points = []LL{genLL(t)} // an empty geometry has no type, and so no literal form
		}
	case "area":
		e.Polys = genPolys(t)
	case "coll":
		for i, n := 0, rapid.IntRange(0, 4).Draw(t, "nitems"); i < n; i++ {
			e.Keys = append(e.Keys, genLiteral(t, depth-1))
			e.Values = append(e.Values, genLiteral(t, depth-1))
		}
	case "route":
		id := genFID(t)
		e.Origin = &id
		for i, n := 0, rapid.IntRange(0, 3).Draw(t, "nsteps"); i < n; i++ {
			e.Steps = append(e.Steps, StepS{Destination: genFID(t), Via: genFID(t), Cost: rapid.SampledFrom([]float64{0, 1.5, 1e9, -1}).Draw(t, "cost")})
		}
	}
	return e
}

func genExpr(t *rapid.T, depth int) ExprS {
	var e ExprS
	k := rapid.IntRange(0, 9).Draw(t, "node")
	switch {
	case depth > 0 && k < 4:
		fn := genExpr(t, depth-1)
		if rapid.IntRange(0, 2).Draw(t, "symfn") > 0 {
			fn = ExprS{Kind: "sym", Sym: rapid.SampledFrom(symbols).Draw(t, "fnsym")}
			positions(t, &fn)
		}
		e = ExprS{Kind: "call", Fn: &fn, Pipelined: rapid.IntRange(0, 3).Draw(t, "pipelined") == 0}
		for i, n := 0, rapid.IntRange(0, 3).Draw(t, "nargs"); i < n; i++ {
			e.Args = append(e.Args, genExpr(t, depth-1))
		}
	case depth > 0 && k < 6:
		body := genExpr(t, depth-1)
		e = ExprS{Kind: "lambda", Body: &body}
		for i, n := 0, rapid.IntRange(0, 3).Draw(t, "nparams"); i < n; i++ {
			e.Params = append(e.Params, rapid.SampledFrom(symbols).Draw(t, "param"))
		}
	case k < 7:
		e = ExprS{Kind: "sym", Sym: rapid.SampledFrom(symbols).Draw(t, "sym")}
	default:
		e = genLiteral(t, 2)
	}
	positions(t, &e)
	return e
}

func positions(t *rapid.T, e *ExprS) {
	if rapid.IntRange(0, 3).Draw(t, "positioned") > 0 {
		e.Begin = rapid.SampledFrom([]int{0, 1, 7, 120, 65536, math.MaxInt32}).Draw(t, "begin")
		e.End = rapid.SampledFrom([]int{0, 2, 9, 121, 70000, math.MaxInt32}).Draw(t, "end")
	}
	if rapid.IntRange(0, 3).Draw(t, "named") == 0 {
		e.Name = rapid.SampledFrom([]string{"x", "radius", "a b", "名"}).Draw(t, "name")
	}
}

func gen_(t *rapid.T) Case { return Case{E: genExpr(t, 3)} }

// ---------------------------------------------------------------------------
// building b6 values from the specification

func (l LL) latlng() s2.LatLng {
	return s2.LatLng{Lat: s1.Angle(l[0]) * s1.E7, Lng: s1.Angle(l[1]) * s1.E7}
}

func polygons(polys [][][]LL) (geometry.MultiPolygon, bool) {
	var out geometry.MultiPolygon
	for _, p := range polys {
		var loops []*s2.Loop
		for _, l := range p {
			var ps []s2.Point
			for _, v := range l {
				ps = append(ps, s2.PointFromLatLng(v.latlng()))
			}
			loop := s2.LoopFromPoints(ps)
			if len(ps) < 3 || loop.Validate() != nil || loop.Area() > 2*math.Pi {
				return nil, false
			}
			loops = append(loops, loop)
		}
		if len(loops) == 0 {
			return nil, false
		}
		polygon := s2.PolygonFromLoops(loops)
		for i, l := range loops {
			if polygon.Loop(i) != l || l.IsHole() != (i > 0) {
				return nil, false
			}
		}
		out = append(out, polygon)
	}
	return out, true
}

func polyline(points []LL) *s2.Polyline {
	p := make(s2.Polyline, 0, len(points))
	for _, l := range points {
		p = append(p, s2.PointFromLatLng(l.latlng()))
	}
	return &p
}

var featureTypes = []b6.FeatureType{b6.FeatureTypePoint, b6.FeatureTypePath, b6.FeatureTypeArea, b6.FeatureTypeRelation, b6.FeatureTypeCollection, b6.FeatureTypeExpression}

func (q QueryS) build() (b6.Query, bool) {
	switch q.Kind {
	case "all":
		return b6.All{}, true
	case "keyed":
		return b6.Keyed{Key: q.Key}, true
	case "tagged":
		return b6.Tagged{Key: q.Key, Value: b6.NewStringExpression(q.Value)}, true
	case "typed":
		if len(q.Sub) != 1 || q.Type < 0 || q.Type >= len(featureTypes) {
			return nil, false
		}
		sub, ok := q.Sub[0].build()
		return b6.Typed{Type: featureTypes[q.Type], Query: sub}, ok
	case "and", "or":
		subs := make([]b6.Query, 0, len(q.Sub))
		for _, s := range q.Sub {
			sub, ok := s.build()
			if !ok {
				return nil, false
			}
			subs = append(subs, sub)
		}
		if q.Kind == "and" {
			return b6.Intersection(subs), true
		}
		return b6.Union(subs), true
	case "cap":
		if q.LL == nil || q.Radius < 0 || math.IsNaN(q.Radius) || q.Radius > 1e7 {
			return nil, false
		}
		return b6.NewIntersectsCap(s2.CapFromCenterAngle(s2.PointFromLatLng(q.LL.latlng()), b6.MetersToAngle(q.Radius))), true
	case "feature":
		if q.ID == nil {
			return nil, false
		}
		return b6.IntersectsFeature{ID: q.ID.ID()}, true
	case "point":
		if q.LL == nil {
			return nil, false
		}
		return b6.IntersectsPoint{Point: s2.PointFromLatLng(q.LL.latlng())}, true
	case "polyline":
		return b6.IntersectsPolyline{Polyline: polyline(q.Points)}, true
	case "multipolygon":
		mp, ok := polygons(q.Polys)
		return b6.IntersectsMultiPolygon{MultiPolygon: mp}, ok
	}
	return nil, false
}

func (e ExprS) literal() (interface{}, bool) {
	switch e.Kind {
	case "int":
		return int(e.Int), true
	case "float":
		return math.Float64frombits(e.FloatBits), true
	case "bool":
		return e.Bool, true
	case "str":
		return e.Str, true
	case "id":
		if e.ID == nil {
			return nil, false
		}
		return e.ID.ID(), true
	case "tag":
		return b6.Tag{Key: e.Sym, Value: b6.NewStringExpression(e.Str)}, true
	case "nil":
		return nil, true
	}
	x, ok := e.build()
	if !ok {
		return nil, false
	}
	if l, ok := x.AnyExpression.(b6.AnyLiteral); ok {
		return l.Literal(), true
	}
	return nil, false
}

func (e ExprS) build() (b6.Expression, bool) {
	out := b6.Expression{Name: e.Name, Begin: e.Begin, End: e.End}
	ok := true
	switch e.Kind {
	case "sym":
		out.AnyExpression = b6.SymbolExpression(e.Sym)
	case "int":
		out.AnyExpression = b6.IntExpression(e.Int)
	case "float":
		out.AnyExpression = b6.FloatExpression(math.Float64frombits(e.FloatBits))
	case "bool":
		out.AnyExpression = b6.BoolExpression(e.Bool)
	case "str":
		out.AnyExpression = b6.StringExpression(e.Str)
	case "id":
		if e.ID == nil {
			return out, false
		}
		out.AnyExpression = b6.FeatureIDExpression(e.ID.ID())
	case "tag":
		out.AnyExpression = b6.TagExpression(b6.Tag{Key: e.Sym, Value: b6.NewStringExpression(e.Str)})
	case "query":
		if e.Query == nil {
			return out, false
		}
		var q b6.Query
		q, ok = e.Query.build()
		out.AnyExpression = b6.QueryExpression{Query: q}
	case "point":
		if e.LL == nil {
			return out, false
		}
		out.AnyExpression = b6.PointExpression(e.LL.latlng())
	case "path":
		out.AnyExpression = b6.PathExpression{Path: b6.GeometryFromPoints(*polyline(e.Points))}
	case "area":
		var mp geometry.MultiPolygon
		mp, ok = polygons(e.Polys)
		out.AnyExpression = b6.AreaExpression{Area: b6.AreaFromS2Polygons(mp)}
	case "nil":
		out.AnyExpression = b6.NilExpression{}
	case "coll":
		if len(e.Keys) != len(e.Values) {
			return out, false
		}
		c := b6.ArrayCollection[interface{}, interface{}]{Keys: []interface{}{}, Values: []interface{}{}}
		for i := range e.Keys {
			k, ok1 := e.Keys[i].literal()
			v, ok2 := e.Values[i].literal()
			if !ok1 || !ok2 {
				return out, false
			}
			c.Keys, c.Values = append(c.Keys, k), append(c.Values, v)
		}
		out.AnyExpression = b6.CollectionExpression{UntypedCollection: b6.Collection[any, any]{AnyCollection: c}}
	case "route":
		if e.Origin == nil {
			return out, false
		}
		r := b6.Route{Origin: e.Origin.ID()}
		for _, s := range e.Steps {
			r.Steps = append(r.Steps, b6.Step{Destination: s.Destination.ID(), Via: s.Via.ID(), Cost: s.Cost})
		}
		out.AnyExpression = b6.RouteExpression(r)
	case "call":
		if e.Fn == nil {
			return out, false
		}
		fn, ok1 := e.Fn.build()
		c := b6.CallExpression{Function: fn, Pipelined: e.Pipelined, Args: []b6.Expression{}}
		ok = ok1
		for _, a := range e.Args {
			arg, ok2 := a.build()
			ok = ok && ok2
			c.Args = append(c.Args, arg)
		}
		out.AnyExpression = c
	case "lambda":
		if e.Body == nil {
			return out, false
		}
		var body b6.Expression
		body, ok = e.Body.build()
		out.AnyExpression = b6.LambdaExpression{Args: append([]string{}, e.Params...), Expression: body}
	default:
		return out, false
	}
	return out, ok
}

// ---------------------------------------------------------------------------
// comparing what came back with the specification

func sameLL(want LL, got s2.LatLng) bool {
	return math.Abs(got.Lat.Degrees()-float64(want[0])/1e7) < 1e-9 && math.Abs(got.Lng.Degrees()-float64(want[1])/1e7) < 1e-9
}

func matchPolys(path string, want [][][]LL, got []*s2.Polygon) error {
	if len(got) != len(want) {
		return fmt.Errorf("%s: %d polygons became %d", path, len(want), len(got))
	}
	for i, p := range want {
		if got[i] == nil || got[i].NumLoops() != len(p) {
			return fmt.Errorf("%s: polygon %d with %d loops came back as %v", path, i, len(p), got[i])
		}
		for j, l := range p {
			// loops may be reordered and rotated; each must be found, with the same role
			found := false
			for _, gl := range got[i].Loops() {
				if gl.NumVertices() != len(l) || gl.IsHole() != (j > 0) {
					continue
				}
				for s := 0; s < len(l) && !found; s++ {
					same := true
					for k := range l {
						same = same && sameLL(l[k], s2.LatLngFromPoint(gl.Vertex((k+s)%len(l))))
					}
					found = same
				}
			}
			if !found {
				return fmt.Errorf("%s: polygon %d loop %d (%v, hole %v) isn't in what came back (%d loops, areas %v)", path, i, j, l, j > 0, got[i].NumLoops(), loopAreas(got[i]))
			}
		}
	}
	return nil
}

func loopAreas(p *s2.Polygon) []string {
	var out []string
	for _, l := range p.Loops() {
		out = append(out, fmt.Sprintf("%.3g(hole %v)", l.Area(), l.IsHole()))
	}
	return out
}

func matchPoints(path string, want []LL, n int, at func(i int) s2.Point) error {
	if n != len(want) {
		return fmt.Errorf("%s: %d points became %d", path, len(want), n)
	}
	for i, l := range want {
		if !sameLL(l, s2.LatLngFromPoint(at(i))) {
			return fmt.Errorf("%s: point %d %v became %v", path, i, l, s2.LatLngFromPoint(at(i)))
		}
	}
	return nil
}

func matchQuery(path string, want QueryS, got b6.Query) error {
	bad := func() error {
		return fmt.Errorf("%s: query %s came back as %T %v", path, want.Kind, got, got)
	}
	switch want.Kind {
	case "all":
		if _, ok := got.(b6.All); !ok {
			return bad()
		}
	case "keyed":
		if q, ok := got.(b6.Keyed); !ok || q.Key != want.Key {
			return bad()
		}
	case "tagged":
		if q, ok := got.(b6.Tagged); !ok || q.Key != want.Key || q.Value.AnyExpression != b6.StringExpression(want.Value) {
			return bad()
		}
	case "typed":
		q, ok := got.(b6.Typed)
		if !ok || q.Type != featureTypes[want.Type] {
			return bad()
		}
		return matchQuery(path+"/typed", want.Sub[0], q.Query)
	case "and", "or":
		var subs []b6.Query
		if q, ok := got.(b6.Intersection); ok && want.Kind == "and" {
			subs = q
		} else if q, ok := got.(b6.Union); ok && want.Kind == "or" {
			subs = q
		} else {
			return bad()
		}
		if len(subs) != len(want.Sub) {
			return fmt.Errorf("%s: %s of %d queries came back with %d", path, want.Kind, len(want.Sub), len(subs))
		}
		for i := range subs {
			if err := matchQuery(fmt.Sprintf("%s/%s[%d]", path, want.Kind, i), want.Sub[i], subs[i]); err != nil {
				return err
			}
		}
	case "cap":
		q, ok := got.(*b6.IntersectsCap)
		if !ok {
			return bad()
		}
		p, err := q.ToProto()
		if err != nil {
			return err
		}
		c := p.GetIntersectsCap()
		if c.GetCenter().GetLatE7() != want.LL[0] || c.GetCenter().GetLngE7() != want.LL[1] || math.Abs(c.GetRadiusMeters()-want.Radius) > 1e-6*math.Max(1, want.Radius) {
			return fmt.Errorf("%s: cap at %v radius %v came back as %v", path, *want.LL, want.Radius, c)
		}
	case "feature":
		if q, ok := got.(b6.IntersectsFeature); !ok || q.ID != want.ID.ID() {
			return bad()
		}
	case "point":
		if q, ok := got.(b6.IntersectsPoint); !ok || !sameLL(*want.LL, s2.LatLngFromPoint(q.Point)) {
			return bad()
		}
	case "polyline":
		q, ok := got.(b6.IntersectsPolyline)
		if !ok || q.Polyline == nil {
			return bad()
		}
		return matchPoints(path, want.Points, len(*q.Polyline), func(i int) s2.Point { return (*q.Polyline)[i] })
	case "multipolygon":
		q, ok := got.(b6.IntersectsMultiPolygon)
		if !ok {
			return bad()
		}
		return matchPolys(path, want.Polys, q.MultiPolygon)
	}
	return nil
}

func match(path string, want ExprS, got b6.Expression, positions bool) error {
	if got.AnyExpression == nil {
		return fmt.Errorf("%s: %s came back as an empty expression", path, want.Kind)
	}
	if positions && (got.Name != want.Name || got.Begin != want.Begin || got.End != want.End) {
		return fmt.Errorf("%s: %s with name %q at %d-%d came back with name %q at %d-%d", path, want.Kind, want.Name, want.Begin, want.End, got.Name, got.Begin, got.End)
	}
	bad := func() error {
		return fmt.Errorf("%s: %s %+v came back as %T %v", path, want.Kind, want, got.AnyExpression, got.AnyExpression)
	}
	switch want.Kind {
	case "sym":
		if g, ok := got.AnyExpression.(b6.SymbolExpression); !ok || string(g) != want.Sym {
			return bad()
		}
	case "int":
		if g, ok := got.AnyExpression.(b6.IntExpression); !ok || int64(g) != want.Int {
			return bad()
		}
	case "float":
		if g, ok := got.AnyExpression.(b6.FloatExpression); !ok || math.Float64bits(float64(g)) != want.FloatBits {
			return bad()
		}
	case "bool":
		if g, ok := got.AnyExpression.(b6.BoolExpression); !ok || bool(g) != want.Bool {
			return bad()
		}
	case "str":
		if g, ok := got.AnyExpression.(b6.StringExpression); !ok || string(g) != want.Str {
			return bad()
		}
	case "id":
		if g, ok := got.AnyExpression.(b6.FeatureIDExpression); !ok || b6.FeatureID(g) != want.ID.ID() {
			return bad()
		}
	case "tag":
		if g, ok := got.AnyExpression.(b6.TagExpression); !ok || g.Key != want.Sym || g.Value.AnyExpression != b6.StringExpression(want.Str) {
			return bad()
		}
	case "query":
		g, ok := got.AnyExpression.(b6.QueryExpression)
		if !ok {
			return bad()
		}
		return matchQuery(path+"/query", *want.Query, g.Query)
	case "point":
		if g, ok := got.AnyExpression.(b6.PointExpression); !ok || !sameLL(*want.LL, s2.LatLng(g)) {
			return bad()
		}
	case "path":
		g, ok := got.AnyExpression.(b6.PathExpression)
		if !ok || g.Path == nil {
			return bad()
		}
		return matchPoints(path, want.Points, g.Path.GeometryLen(), g.Path.PointAt)
	case "area":
		g, ok := got.AnyExpression.(b6.AreaExpression)
		if !ok || g.Area == nil {
			return bad()
		}
		return matchPolys(path, want.Polys, b6.AreaToS2Polygons(g.Area))
	case "nil":
		if _, ok := got.AnyExpression.(b6.NilExpression); !ok {
			return bad()
		}
	case "coll":
		g, ok := got.AnyExpression.(b6.CollectionExpression)
		if !ok || g.UntypedCollection == nil {
			return bad()
		}
		i := g.BeginUntyped()
		for n := 0; ; n++ {
			ok, err := i.Next()
			if err != nil {
				return fmt.Errorf("%s: iterating the collection that came back: %v", path, err)
			}
			if !ok {
				if n != len(want.Keys) {
					return fmt.Errorf("%s: collection of %d items came back with %d", path, len(want.Keys), n)
				}
				break
			}
			if n >= len(want.Keys) {
				return fmt.Errorf("%s: collection of %d items came back with more", path, len(want.Keys))
			}
			for _, kv := range []struct {
				what string
				want ExprS
				got  interface{}
			}{{"key", want.Keys[n], i.Key()}, {"value", want.Values[n], i.Value()}} {
				l, err := b6.FromLiteral(kv.got)
				if err != nil {
					return fmt.Errorf("%s: %s %d came back as %T: %v", path, kv.what, n, kv.got, err)
				}
				if err := match(fmt.Sprintf("%s/%s[%d]", path, kv.what, n), kv.want, b6.Expression{AnyExpression: l.AnyLiteral}, false); err != nil {
					return err
				}
			}
		}
	case "route":
		g, ok := got.AnyExpression.(b6.RouteExpression)
		if !ok || g.Origin != want.Origin.ID() || len(g.Steps) != len(want.Steps) {
			return bad()
		}
		for i, s := range want.Steps {
			if g.Steps[i].Destination != s.Destination.ID() || g.Steps[i].Via != s.Via.ID() || g.Steps[i].Cost != s.Cost {
				return bad()
			}
		}
	case "call":
		g, ok := got.AnyExpression.(b6.CallExpression)
		if !ok || g.Pipelined != want.Pipelined || len(g.Args) != len(want.Args) {
			return bad()
		}
		if err := match(path+"/fn", *want.Fn, g.Function, positions); err != nil {
			return err
		}
		for i := range want.Args {
			if err := match(fmt.Sprintf("%s/arg[%d]", path, i), want.Args[i], g.Args[i], positions); err != nil {
				return err
			}
		}
	case "lambda":
		g, ok := got.AnyExpression.(b6.LambdaExpression)
		if !ok || fmt.Sprintf("%q", g.Args) != fmt.Sprintf("%q", want.Params) && (len(g.Args) != 0 || len(want.Params) != 0) {
			return bad()
		}
		return match(path+"/body", *want.Body, g.Expression, positions)
	}
	return nil
}

// roundCapRadii rounds the radius of every cap in the message to 9 significant
// digits, as the chord angle <-> metres conversion moves it by an ulp or two.
func roundCapRadii(m protoreflect.Message) {
	if c, ok := m.Interface().(*pb.CapProto); ok {
		if c.RadiusMeters != 0 {
			scale := math.Pow(10, 8-math.Floor(math.Log10(math.Abs(c.RadiusMeters))))
			c.RadiusMeters = math.Round(c.RadiusMeters*scale) / scale
		}
		return
	}
	m.Range(func(fd protoreflect.FieldDescriptor, v protoreflect.Value) bool {
		if fd.Message() == nil || fd.IsMap() {
			return true
		}
		if fd.IsList() {
			for i := 0; i < v.List().Len(); i++ {
				roundCapRadii(v.List().Get(i).Message())
			}
		} else {
			roundCapRadii(v.Message())
		}
		return true
	})
}

func (e ExprS) walk(f func(ExprS)) {
	f(e)
	for _, l := range [][]ExprS{e.Keys, e.Values, e.Args} {
		for _, c := range l {
			c.walk(f)
		}
	}
	if e.Fn != nil {
		e.Fn.walk(f)
	}
	if e.Body != nil {
		e.Body.walk(f)
	}
}

func check(c Case) vlib.Outcome {
	valid := true
	kinds := map[string]bool{}
	nodes, nan, holes := 0, false, false
	c.E.walk(func(e ExprS) {
		nodes++
		kinds[e.Kind] = true
		valid = valid && e.Begin >= 0 && e.End >= 0 && e.Begin <= math.MaxInt32 && e.End <= math.MaxInt32
		if e.Kind == "float" {
			f := math.Float64frombits(e.FloatBits)
			nan = nan || f != f
		}
		polys := e.Polys
		if e.Query != nil {
			var qs func(q QueryS)
			qs = func(q QueryS) {
				kinds["query:"+q.Kind] = true
				polys = append(polys, q.Polys...)
				for _, s := range q.Sub {
					qs(s)
				}
			}
			qs(*e.Query)
		}
		for _, p := range polys {
			holes = holes || len(p) > 1
		}
	})
	if !valid || nodes > 400 {
		return vlib.Outcome{Skip: true}
	}
	_ = holes
	e, ok := c.E.build()
	if !ok {
		return vlib.Outcome{Skip: true, Classes: []string{"skipped:not-buildable"}}
	}
	// the specification builds what it says
	if err := match("built", c.E, e, true); err != nil {
		return vlib.Outcome{Skip: true, Classes: []string{"skipped:harness-mismatch"}}
	}
	p1, err := e.ToProto()
	if err != nil {
		return vlib.Fail("ToProto failed: %v", err)
	}
	wire, err := proto.Marshal(p1)
	if err != nil {
		return vlib.Fail("the proto doesn't marshal: %v", err)
	}
	var read pb.NodeProto
	if err := proto.Unmarshal(wire, &read); err != nil {
		return vlib.Fail("the proto doesn't unmarshal: %v", err)
	}
	e2, err := b6.ExpressionFromProto(&read)
	if err != nil {
		return vlib.Fail("ExpressionFromProto failed: %v", err)
	}
	if err := match("expression", c.E, e2, true); err != nil {
		return vlib.Fail("the expression that came back from its proto differs from the one sent: %v", err)
	}
	// (a cap is held as a chord angle and sent as a radius in metres: the conversion between the
	// two isn't exact, so trees with caps are compared by match() above, with a tolerance)
	if !nan && !kinds["query:cap"] && !e.Equal(e2) {
		return vlib.Fail("the expression that came back from its proto isn't Equal() to the one sent: %v vs %v", e, e2)
	}
	p2, err := e2.ToProto()
	if err != nil {
		return vlib.Fail("ToProto of the expression that came back failed: %v", err)
	}
	roundCapRadii(p1.ProtoReflect())
	roundCapRadii(p2.ProtoReflect())
	if !proto.Equal(p1, p2) {
		return vlib.Fail("converting a second time changes the proto:\nfirst:  %v\nsecond: %v", p1, p2)
	}
	out := vlib.Outcome{NonTrivial: nodes >= 3}
	for k := range kinds {
		out.Classes = append(out.Classes, k)
	}
	return out
}

func TestProp(t *testing.T) {
	vlib.Run(t, vlib.Config{ID: "C19", Name: "expression-proto", NoWAL: true,
		Rule: "expression trees to depth 3: calls (symbol, lambda or call in function position, pipelined or not, 0-3 arguments), lambdas with 0-3 parameters, symbols and literals of every kind that has a proto reader (int and float extremes incl. NaN/-0/inf, bool, arbitrary UTF-8 strings, feature IDs of every type with boundary values, string-valued tags, points/paths/areas on the E7 grid incl. poles and the antimeridian, nil, routes, nested collections, query trees of all/keyed/tagged/typed/intersection/union with 0-3 children/cap/feature/point/polyline/multipolygon), each node with generated name and begin/end positions up to 2^31-1; oracle: ToProto, marshal, unmarshal, ExpressionFromProto gives back exactly the specified tree (own structural comparison incl. name and positions; geometry within 1e-9 degrees), Equal() holds, and a second ToProto gives a proto.Equal message; non-trivial = a tree of at least 3 nodes"},
		gen_, check)
}
