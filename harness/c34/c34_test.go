// C34: line simplification matches the recursive reference.
package c34

import (
	"math"
	"testing"

	"diagonal.works/b6/renderer"
	"github.com/golang/geo/r2"
	"pgregory.net/rapid"
	"verif/vlib"
)

type Case struct {
	Points  [][2]float64 `json:"points"`
	Epsilon float64      `json:"epsilon"`
}

func gen(t *rapid.T) Case {
	n := rapid.IntRange(2, 60).Draw(t, "n")
	if rapid.IntRange(0, 9).Draw(t, "long") == 0 {
		n = rapid.IntRange(60, 400).Draw(t, "nlong")
	}
	grid := rapid.SampledFrom([]float64{1, 1, 0.5, 0.001, 1000}).Draw(t, "grid")
	var c Case
	x, y := 0.0, 0.0
	for i := 0; i < n; i++ {
		switch rapid.IntRange(0, 6).Draw(t, "step") {
		case 0: // duplicate of the previous point
		case 1: // collinear run
			x += grid
		case 2: // spike
			y += grid * float64(rapid.IntRange(-50, 50).Draw(t, "spike"))
		case 3: // back to the start (closed shapes make first == last)
			x, y = 0, 0
		default:
			x += grid * float64(rapid.IntRange(-5, 5).Draw(t, "dx"))
			y += grid * float64(rapid.IntRange(-5, 5).Draw(t, "dy"))
		}
		c.Points = append(c.Points, [2]float64{x, y})
	}
	c.Epsilon = grid * rapid.SampledFrom([]float64{0, 0.1, 0.5, 1, 1, 2, 3, 5, 10, 1e9}).Draw(t, "epsilon")
	return c
}

func dist(a, b, p r2.Point) float64 {
	d := b.Sub(a)
	if d.X == 0 && d.Y == 0 {
		return a.Sub(p).Norm()
	}
	n := d.Normalize()
	v := a.Sub(p)
	return v.Sub(n.Mul(v.Dot(n))).Norm()
}

// second reference: recursive Douglas-Peucker written here with the same
// conventions as the repository's (first farthest point wins ties; the split
// point starts the right half only).
func ref(points []r2.Point, eps float64) []r2.Point {
	max, maxi := 0.0, 0
	for i := 1; i < len(points)-1; i++ {
		if d := dist(points[0], points[len(points)-1], points[i]); d > max {
			max, maxi = d, i
		}
	}
	if max > eps {
		left := ref(points[:maxi], eps)
		right := ref(points[maxi:], eps)
		return append(append([]r2.Point{}, left[:len(left)-1]...), right...)
	}
	return []r2.Point{points[0], points[len(points)-1]}
}

func check(c Case) vlib.Outcome {
	if len(c.Points) < 2 || c.Epsilon < 0 || math.IsNaN(c.Epsilon) {
		return vlib.Outcome{Skip: true}
	}
	points := make([]r2.Point, len(c.Points))
	for i, p := range c.Points {
		if math.IsNaN(p[0]) || math.IsNaN(p[1]) || math.IsInf(p[0], 0) || math.IsInf(p[1], 0) {
			return vlib.Outcome{Skip: true}
		}
		points[i] = r2.Point{X: p[0], Y: p[1]}
	}
	input := append([]r2.Point{}, points...)
	got := renderer.Simplify(points, c.Epsilon)
	for i := range input {
		if points[i] != input[i] {
			return vlib.Fail("Simplify modified its input at %d", i)
		}
	}
	want := renderer.VerifReferenceDouglasPeuckerSimplify(input, c.Epsilon)
	if len(got) != len(want) {
		return vlib.Fail("Simplify returned %d points %v, the in-repository recursive reference %d points %v", len(got), got, len(want), want)
	}
	for i := range got {
		if got[i] != want[i] {
			return vlib.Fail("point %d: Simplify %v, recursive reference %v (outputs %v vs %v)", i, got[i], want[i], got, want)
		}
	}
	want2 := ref(input, c.Epsilon)
	if len(got) != len(want2) {
		return vlib.Fail("Simplify returned %d points %v, the harness reference %d points %v", len(got), got, len(want2), want2)
	}
	for i := range got {
		if got[i] != want2[i] {
			return vlib.Fail("point %d: Simplify %v, harness reference %v", i, got[i], want2[i])
		}
	}
	if got[0] != input[0] || got[len(got)-1] != input[len(input)-1] {
		return vlib.Fail("first/last not kept: %v ... %v from %v ... %v", got[0], got[len(got)-1], input[0], input[len(input)-1])
	}
	// subsequence
	j := 0
	for _, p := range got {
		for j < len(input) && input[j] != p {
			j++
		}
		if j == len(input) {
			return vlib.Fail("output %v is not a subsequence of the input", got)
		}
		j++
	}
	return vlib.Outcome{NonTrivial: len(got) > 2 && len(got) < len(input)}
}

func TestProp(t *testing.T) {
	vlib.Run(t, vlib.Config{ID: "C34", Name: "simplify", NoWAL: true,
		Rule: "point sequences of 2-400 points on grids of several scales with duplicates, collinear runs, spikes and returns to the start, tolerances 0 .. huge; Simplify compared point for point with the in-repository recursive reference (hook) and a second recursive reference in the harness, plus first/last kept, subsequence, input unmodified; non-trivial = some but not all interior points removed"},
		gen, check)
}
