// C29: OSM data maps to features by fixed rules.
package c29

import (
	"fmt"
	"math"
	"sort"
	"strings"
	"testing"

	"diagonal.works/b6"
	"github.com/golang/geo/s2"
	"pgregory.net/rapid"
	"verif/vlib"
	"verif/wm"
)

type Case struct {
	Data wm.OSMData `json:"data"`
}

func gen(t *rapid.T) Case {
	return Case{Data: wm.GenOSM(t, wm.OSMGenConfig{MaxNodes: 8, MaxWays: 5, MaxClosed: 4, MaxRelations: 5, Clockwise: true, Multipolygons: true, Network: true, GeometryKeys: true, MixedMembers: true, AllKeys: true})}
}

// the documented mapping of OSM keys to searchable b6 keys
var mapping = map[string]string{
	"amenity": "#amenity", "barrier": "#barrier", "boundary": "#boundary", "bridge": "#bridge", "building": "#building",
	"highway": "#highway", "landuse": "#landuse", "leisure": "#leisure", "natural": "#natural", "network": "#network",
	"place": "#place", "railway": "#railway", "route": "#route", "shop": "#shop", "tourism": "#tourism", "water": "#water",
	"waterway": "#waterway", "fhrs:id": "@fhrs:id", "wikidata": "@wikidata", "wikipedia": "@wikipedia",
}

type expected struct {
	id      b6.FeatureID
	tags    map[string]string
	path    []b6.FeatureID   // path: point IDs in order
	polys   [][]b6.FeatureID // area: path IDs per polygon
	members []string         // relation: "id:role"
}

func mapTags(ts []wm.TagS) map[string]string {
	out := map[string]string{}
	for _, t := range ts {
		k := t.K
		if m, ok := mapping[k]; ok {
			k = m
		}
		out[k] = t.V
	}
	return out
}

func fid(t b6.FeatureType, ns b6.Namespace, v int64) b6.FeatureID {
	return b6.FeatureID{Type: t, Namespace: ns, Value: uint64(v)}
}

func model(d wm.OSMData) (map[b6.FeatureID]*expected, bool) {
	out := map[b6.FeatureID]*expected{}
	nodes := map[int64]wm.LL{}
	for _, n := range d.Nodes {
		nodes[n.ID] = n.LL
		id := fid(b6.FeatureTypePoint, b6.NamespaceOSMNode, n.ID)
		out[id] = &expected{id: id, tags: mapTags(n.Tags)}
		delete(out[id].tags, b6.PointTag) // an OSM tag keyed like the geometry tag is replaced by the geometry
	}
	closed := map[int64]bool{}
	for _, w := range d.Ways {
		for _, n := range w.Nodes {
			if _, ok := nodes[n]; !ok {
				return nil, false // ways with missing nodes are dropped by validation: outside this check
			}
		}
		id := fid(b6.FeatureTypePath, b6.NamespaceOSMWay, w.ID)
		e := &expected{id: id, tags: mapTags(w.Tags)}
		delete(e.tags, b6.PathTag)
		order := append([]int64{}, w.Nodes...)
		if len(w.Nodes) > 2 && w.Nodes[0] == w.Nodes[len(w.Nodes)-1] {
			closed[w.ID] = true
			e.tags = map[string]string{} // the area carries the way's tags
			var pts []s2.Point
			for _, n := range w.Nodes[:len(w.Nodes)-1] {
				pts = append(pts, nodes[n].Point())
			}
			if s2.LoopFromPoints(pts).Area() > 2*math.Pi { // drawn clockwise: stored counter-clockwise
				for a, z := 0, len(order)-1; a < z; a, z = a+1, z-1 {
					order[a], order[z] = order[z], order[a]
				}
			}
			aid := fid(b6.FeatureTypeArea, b6.NamespaceOSMWay, w.ID)
			out[aid] = &expected{id: aid, tags: mapTags(w.Tags), polys: [][]b6.FeatureID{{id}}}
		}
		for _, n := range order {
			e.path = append(e.path, fid(b6.FeatureTypePoint, b6.NamespaceOSMNode, n))
		}
		out[id] = e
	}
	multipolygon := map[int64]bool{}
	for _, r := range d.Relations {
		for _, t := range r.Tags {
			if t.K == "type" && t.V == "multipolygon" {
				multipolygon[r.ID] = true
			}
		}
	}
	for _, r := range d.Relations {
		if multipolygon[r.ID] {
			var polys [][]b6.FeatureID
			ok := true
			for _, m := range r.Members {
				if m.Type != 1 {
					continue
				}
				if !closed[m.ID] {
					ok = false // an open or missing way: the multipolygon is not assembled
					break
				}
				if m.Role == "outer" || m.Role == "" || len(polys) == 0 {
					polys = append(polys, nil)
				}
				polys[len(polys)-1] = append(polys[len(polys)-1], fid(b6.FeatureTypePath, b6.NamespaceOSMWay, m.ID))
			}
			if ok {
				aid := fid(b6.FeatureTypeArea, b6.NamespaceOSMRelation, r.ID)
				out[aid] = &expected{id: aid, tags: mapTags(r.Tags), polys: polys}
			}
			continue
		}
		id := fid(b6.FeatureTypeRelation, b6.NamespaceOSMRelation, r.ID)
		e := &expected{id: id, tags: mapTags(r.Tags)}
		for _, m := range r.Members {
			var mid b6.FeatureID
			switch m.Type {
			case 0:
				mid = fid(b6.FeatureTypePoint, b6.NamespaceOSMNode, m.ID)
			case 1:
				if closed[m.ID] {
					mid = fid(b6.FeatureTypeArea, b6.NamespaceOSMWay, m.ID)
				} else {
					mid = fid(b6.FeatureTypePath, b6.NamespaceOSMWay, m.ID)
				}
			case 2:
				if multipolygon[m.ID] {
					mid = fid(b6.FeatureTypeArea, b6.NamespaceOSMRelation, m.ID)
				} else {
					mid = fid(b6.FeatureTypeRelation, b6.NamespaceOSMRelation, m.ID)
				}
			}
			e.members = append(e.members, fmt.Sprintf("%v:%s", mid, m.Role))
		}
		out[id] = e
	}
	return out, true
}

func render(m map[string]string) string {
	ks := make([]string, 0, len(m))
	for k := range m {
		ks = append(ks, k)
	}
	sort.Strings(ks)
	parts := []string{}
	for _, k := range ks {
		parts = append(parts, k+"="+m[k])
	}
	return "{" + strings.Join(parts, " ") + "}"
}

func check(c Case) vlib.Outcome {
	if !c.Data.Valid() || len(c.Data.Nodes) == 0 {
		return vlib.Outcome{Skip: true}
	}
	want, ok := model(c.Data)
	if !ok {
		return vlib.Outcome{Skip: true, Classes: []string{"skipped:missing-nodes"}}
	}
	nodeLL := map[b6.FeatureID]wm.LL{}
	for _, n := range c.Data.Nodes {
		nodeLL[fid(b6.FeatureTypePoint, b6.NamespaceOSMNode, n.ID)] = n.LL
	}
	for _, world := range []string{"basic", "compact"} {
		var w b6.World
		var err error
		if world == "basic" {
			w, err = c.Data.BuildBasic(1)
		} else if vlib.Tier() == "thorough" || len(c.Data.Relations)%2 == 0 {
			w, err = c.Data.BuildCompact(1)
		} else {
			continue
		}
		if err != nil {
			return vlib.Fail("%s build failed: %v", world, err)
		}
		ids := make([]b6.FeatureID, 0, len(want))
		for id := range want {
			ids = append(ids, id)
		}
		sort.Slice(ids, func(i, j int) bool { return ids[i].Less(ids[j]) })
		for _, id := range ids {
			e := want[id]
			f := w.FindFeatureByID(id)
			if f == nil {
				return vlib.Fail("%s world: %v is missing; the rules give it tags %s", world, id, render(e.tags))
			}
			got := map[string]string{}
			for _, t := range f.AllTags() {
				if t.Key != b6.PointTag && t.Key != b6.PathTag {
					got[t.Key] = t.Value.String()
				}
			}
			if render(got) != render(e.tags) {
				return vlib.Fail("%s world: %v has tags %s, the rules give %s", world, id, render(got), render(e.tags))
			}
			switch id.Type {
			case b6.FeatureTypePoint:
				ll, err := w.FindLocationByID(id)
				if err != nil || wm.LLFromS2(ll) != nodeLL[id] {
					return vlib.Fail("%s world: point %v is at %v (err %v), the node is at %v", world, id, wm.LLFromS2(ll), err, nodeLL[id])
				}
			case b6.FeatureTypePath:
				p := f.(b6.PhysicalFeature)
				var refs []b6.FeatureID
				for i := 0; i < p.GeometryLen(); i++ {
					refs = append(refs, p.Reference(i).Source())
				}
				if fmt.Sprint(refs) != fmt.Sprint(e.path) {
					return vlib.Fail("%s world: path %v runs over %v, the way's nodes are %v", world, id, refs, e.path)
				}
			case b6.FeatureTypeArea:
				a := f.(b6.AreaFeature)
				var polys [][]b6.FeatureID
				for i := 0; i < a.Len(); i++ {
					var paths []b6.FeatureID
					for _, p := range a.Feature(i) {
						paths = append(paths, p.FeatureID())
					}
					polys = append(polys, paths)
				}
				if fmt.Sprint(polys) != fmt.Sprint(e.polys) {
					return vlib.Fail("%s world: area %v has polygons %v, the rules give %v", world, id, polys, e.polys)
				}
			case b6.FeatureTypeRelation:
				r := f.(b6.RelationFeature)
				var members []string
				for i := 0; i < r.Len(); i++ {
					m := r.Member(i)
					members = append(members, fmt.Sprintf("%v:%s", m.ID, m.Role))
				}
				if fmt.Sprint(members) != fmt.Sprint(e.members) {
					return vlib.Fail("%s world: relation %v has members %v, the rules give %v", world, id, members, e.members)
				}
			}
		}
		// searchable keys: a search by a mapped key finds exactly the features the rules give that key
		searchable := map[string]bool{}
		for _, mk := range mapping {
			searchable[mk] = true
		}
		mks := make([]string, 0, len(searchable))
		for mk := range searchable {
			mks = append(mks, mk)
		}
		sort.Strings(mks)
		for _, mk := range mks {
			var expect, found []string
			for _, id := range ids {
				if _, ok := want[id].tags[mk]; ok {
					expect = append(expect, id.String())
				}
			}
			fs := w.FindFeatures(b6.Keyed{Key: mk})
			for fs.Next() {
				found = append(found, fs.FeatureID().String())
			}
			sort.Strings(expect)
			sort.Strings(found)
			if fmt.Sprint(expect) != fmt.Sprint(found) {
				return vlib.Fail("%s world: a search for the key %s finds %v, the rules give that key to %v", world, mk, found, expect)
			}
		}
		var extra []string
		if err := w.EachFeature(func(f b6.Feature, _ int) error {
			if _, ok := want[f.FeatureID()]; !ok {
				extra = append(extra, f.FeatureID().String())
			}
			return nil
		}, &b6.EachFeatureOptions{Goroutines: 1}); err != nil {
			return vlib.Fail("EachFeature: %v", err)
		}
		if len(extra) > 0 {
			sort.Strings(extra)
			return vlib.Fail("%s world contains %v, which the rules do not produce", world, extra)
		}
	}
	nt := false
	for _, e := range want {
		if len(e.members) > 0 || len(e.polys) > 1 {
			nt = true
		}
	}
	return vlib.Outcome{NonTrivial: nt}
}

func TestProp(t *testing.T) {
	vlib.Run(t, vlib.Config{ID: "C29", Name: "osm-rules", CaseTimeout: 120e9,
		Rule: "OSM data with robustly valid geometry: 2-8 free nodes, 0-5 open ways, 0-4 closed ways drawn counter-clockwise or clockwise, 0-5 relations (multipolygons over closed and occasionally open ways with outer/inner roles; plain relations over nodes, open ways, closed ways, relations, multipolygons and absent members), tags drawn from every key of the searchable mapping and from keys that resemble them without being in it; the in-memory world (always) and the compact world (half of the cases in quick) are compared with an independent implementation of the stated rules: a point per node, a path per way over its nodes (stored counter-clockwise, no tags if closed), an area per closed way with the way's tags, an area per assemblable multipolygon with polygons split at outer members, a relation per other relation whose members point at areas for closed ways and multipolygons; a search by each searchable key finds exactly the features the rules give it; plus nothing else is enumerated; non-trivial = a relation with members or an area with >= 2 polygons"},
		gen, check)
}
