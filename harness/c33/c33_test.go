// C33: vector tile geometry decodes to the projected feature.
package c33

import (
	"fmt"
	"math"
	"sort"
	"testing"

	"diagonal.works/b6"
	pb "diagonal.works/b6/proto"
	"diagonal.works/b6/renderer"
	"github.com/golang/geo/r2"
	"github.com/golang/geo/s2"
	"google.golang.org/protobuf/proto"
	"pgregory.net/rapid"
	"verif/vlib"
)

type XY [2]int

// RingS is one polygon ring in tile units, with its nesting level: 0 for a
// shell, 1 for a hole in it, 2 for a shell within that hole...
type RingS struct {
	Points []XY `json:"points"`
	Level  int  `json:"level"`
}

type FeatureS struct {
	Kind   int               `json:"kind"` // 0 point, 1 line string, 2 polygon
	Points []XY              `json:"points,omitempty"`
	Rings  []RingS           `json:"rings,omitempty"`
	ID     uint64            `json:"id,string"`
	Tags   map[string]string `json:"tags,omitempty"`
}

type LayerS struct {
	Name     string     `json:"name"`
	Features []FeatureS `json:"features"`
}

type Case struct {
	Z      uint     `json:"z"`
	X      uint     `json:"x"`
	Y      uint     `json:"y"`
	Layers []LayerS `json:"layers"`
}

const extent = 1 << renderer.TileExtent

var keyPool = []string{"name", "highway", "building", "layer", "", "colour", "é", "k1", "k2", "k3", "k4", "k5", "k6", "k7", "k8", "k9"}
var valuePool = []string{"", "yes", "no", "primary", "1", "-1", "4096", "日本", "a b", "yes "}

// ring generates a star-shaped ring around (cx, cy) whose vertices lie between
// 0.8r and r, ordered counterclockwise on the map (y grows downwards).
func ring(t *rapid.T, cx, cy, r float64, level int) RingS {
	n := rapid.IntRange(3, 8).Draw(t, "nvertices")
	out := RingS{Level: level}
	phase := rapid.Float64Range(0, 2*math.Pi).Draw(t, "phase")
	for i := 0; i < n; i++ {
		a := phase + 2*math.Pi*float64(i)/float64(n)
		d := r * rapid.Float64Range(0.8, 1).Draw(t, "radius")
		out.Points = append(out.Points, XY{int(cx + d*math.Cos(a)), int(cy - d*math.Sin(a))})
	}
	return out
}

// nest generates a shell and, within it, holes and shells within holes.
func nest(t *rapid.T, cx, cy, r float64, level int) []RingS {
	rings := []RingS{ring(t, cx, cy, r, level)}
	inner := r * 0.8 * 0.5 * 0.85 // inside the inscribed circle of any ring above
	if inner < 10 || level >= 3 {
		return rings
	}
	switch rapid.IntRange(0, 3).Draw(t, "inside") {
	case 1: // one concentric ring, possibly with more inside it
		rings = append(rings, nest(t, cx, cy, inner, level+1)...)
	case 2: // two separate rings side by side
		rings = append(rings, nest(t, cx-inner/2, cy, inner*0.4, level+1)...)
		rings = append(rings, nest(t, cx+inner/2, cy, inner*0.4, level+1)...)
	}
	return rings
}

func genTags(t *rapid.T) map[string]string {
	tags := map[string]string{}
	n := rapid.IntRange(0, 4).Draw(t, "ntags")
	if rapid.IntRange(0, 9).Draw(t, "manytags") == 0 {
		n = rapid.IntRange(9, 14).Draw(t, "nmanytags")
	}
	for i := 0; i < n; i++ {
		k := rapid.SampledFrom(keyPool).Draw(t, "key")
		v := rapid.SampledFrom(valuePool).Draw(t, "value")
		if rapid.IntRange(0, 5).Draw(t, "anyvalue") == 0 {
			v = rapid.String().Draw(t, "anyvaluev")
		}
		tags[k] = v
	}
	return tags
}

func gen(t *rapid.T) Case {
	c := Case{Z: uint(rapid.IntRange(0, 19).Draw(t, "z"))}
	c.X = uint(rapid.IntRange(0, (1<<c.Z)-1).Draw(t, "x"))
	c.Y = uint(rapid.IntRange(0, (1<<c.Z)-1).Draw(t, "y"))
	xy := func() XY {
		edge := []int{0, 1, extent / 2, extent - 2, extent - 1}
		p := XY{rapid.IntRange(0, extent-1).Draw(t, "x"), rapid.IntRange(0, extent-1).Draw(t, "y")}
		if rapid.IntRange(0, 4).Draw(t, "edge") == 0 {
			p[rapid.IntRange(0, 1).Draw(t, "axis")] = rapid.SampledFrom(edge).Draw(t, "edgev")
		}
		return p
	}
	for i, n := 0, rapid.IntRange(1, 3).Draw(t, "nlayers"); i < n; i++ {
		l := LayerS{Name: rapid.SampledFrom([]string{"road", "building", "landuse", "label", ""}).Draw(t, "layer")}
		for j, m := 0, rapid.IntRange(0, 4).Draw(t, "nfeatures"); j < m; j++ {
			f := FeatureS{Kind: rapid.IntRange(0, 2).Draw(t, "kind"), Tags: genTags(t)}
			f.ID = rapid.SampledFrom([]uint64{0, 1, 2, 1 << 32, math.MaxUint64}).Draw(t, "id")
			switch f.Kind {
			case 0:
				f.Points = []XY{xy()}
			case 1:
				for k, np := 0, rapid.IntRange(2, 12).Draw(t, "npoints"); k < np; k++ {
					f.Points = append(f.Points, xy())
				}
			default:
				if rapid.IntRange(0, 19).Draw(t, "big") == 0 {
					// more than 1000 vertices: the encoder simplifies these
					np := rapid.IntRange(1001, 1300).Draw(t, "nbig")
					r := RingS{}
					for k := 0; k < np; k++ {
						a := 2 * math.Pi * float64(k) / float64(np)
						d := 1900.0 + 100*math.Sin(float64(rapid.IntRange(3, 40).Draw(t, "wobble"))*a)
						r.Points = append(r.Points, XY{int(2048 + d*math.Cos(a)), int(2048 - d*math.Sin(a))})
					}
					f.Rings = []RingS{r}
				} else if rapid.Bool().Draw(t, "multi") {
					// two shells side by side
					f.Rings = append(nest(t, 1000, rapid.Float64Range(1000, 3000).Draw(t, "cy1"), rapid.Float64Range(20, 950).Draw(t, "r1"), 0),
						nest(t, 3000, rapid.Float64Range(1000, 3000).Draw(t, "cy2"), rapid.Float64Range(20, 950).Draw(t, "r2"), 0)...)
				} else {
					f.Rings = nest(t, 2048, 2048, rapid.Float64Range(20, 2000).Draw(t, "r"), 0)
				}
			}
			l.Features = append(l.Features, f)
		}
		c.Layers = append(c.Layers, l)
	}
	return c
}

// decoded is one feature as read back from the command stream.
type decoded struct {
	paths  [][]XY // one per MoveTo
	closed []bool
}

func decode(geometry []uint32) (decoded, error) {
	var d decoded
	x, y := 0, 0
	i := 0
	for i < len(geometry) {
		command, count := geometry[i]&0x7, int(geometry[i]>>3)
		i++
		switch command {
		case renderer.TileCommandMoveTo, renderer.TileCommandLineTo:
			if count < 1 || i+2*count > len(geometry) {
				return d, fmt.Errorf("command %d at %d has count %d with %d values left", command, i-1, count, len(geometry)-i)
			}
			for j := 0; j < count; j++ {
				x += unzigzag(geometry[i])
				y += unzigzag(geometry[i+1])
				i += 2
				if command == renderer.TileCommandMoveTo {
					d.paths = append(d.paths, []XY{{x, y}})
					d.closed = append(d.closed, false)
				} else {
					if len(d.paths) == 0 {
						return d, fmt.Errorf("LineTo before MoveTo")
					}
					d.paths[len(d.paths)-1] = append(d.paths[len(d.paths)-1], XY{x, y})
				}
			}
		case renderer.TileCommandClosePath:
			if count != 1 || len(d.paths) == 0 || d.closed[len(d.paths)-1] {
				return d, fmt.Errorf("ClosePath with count %d after %d paths", count, len(d.paths))
			}
			d.closed[len(d.paths)-1] = true
		default:
			return d, fmt.Errorf("unknown command %d at %d", command, i-1)
		}
	}
	return d, nil
}

// unzigzag follows the vector tile specification: ((value >> 1) ^ (-(value & 1)))
func unzigzag(v uint32) int {
	if v&1 == 0 {
		return int(v >> 1)
	}
	return -int(v>>1) - 1
}

// area is the signed area by the surveyor's formula in tile coordinates.
func area(ring []XY) float64 {
	a := 0.0
	for i := range ring {
		j := (i + 1) % len(ring)
		a += float64(ring[i][0])*float64(ring[j][1]) - float64(ring[j][0])*float64(ring[i][1])
	}
	return a / 2
}

// sameCycle returns true if a equals b up to rotation and direction.
func sameCycle(a, b []XY) bool {
	if len(a) != len(b) {
		return false
	}
	n := len(a)
	for s := 0; s < n; s++ {
		fw, bw := true, true
		for i := 0; i < n && (fw || bw); i++ {
			fw = fw && a[i] == b[(s+i)%n]
			bw = bw && a[i] == b[(s-i+2*n)%n]
		}
		if fw || bw {
			return true
		}
	}
	return false
}

func check(c Case) vlib.Outcome {
	if c.Z > 19 || c.X >= 1<<c.Z || c.Y >= 1<<c.Z || len(c.Layers) == 0 {
		return vlib.Outcome{Skip: true}
	}
	projection := b6.NewTileMercatorProjection(c.Z + renderer.TileExtent)
	unproject := func(p XY) s2.Point {
		return projection.Unproject(r2.Point{X: float64(int(c.X)<<renderer.TileExtent+p[0]) + 0.5, Y: float64(int(c.Y)<<renderer.TileExtent+p[1]) + 0.5})
	}
	local := func(p s2.Point) XY {
		q := projection.Project(p)
		return XY{int(q.X) - int(c.X)<<renderer.TileExtent, int(q.Y) - int(c.Y)<<renderer.TileExtent}
	}
	tile := &renderer.Tile{}
	type want struct {
		layer   int
		feature FeatureS
		big     []XY // the expected single ring of a simplified polygon
	}
	var wants []want
	holes, islands, shared := false, false, false
	for li, l := range c.Layers {
		layer := renderer.NewLayer(l.Name)
		values := map[string]int{}
		for _, f := range l.Features {
			var g renderer.Geometry
			all := append([]XY{}, f.Points...)
			for _, r := range f.Rings {
				all = append(all, r.Points...)
			}
			for _, p := range all {
				if p[0] < 0 || p[0] >= extent || p[1] < 0 || p[1] >= extent {
					return vlib.Outcome{Skip: true}
				}
				if local(unproject(p)) != p {
					return vlib.Outcome{Skip: true, Classes: []string{"skipped:projection-not-exact"}}
				}
			}
			w := want{layer: li, feature: f}
			switch f.Kind {
			case 0:
				if len(f.Points) != 1 {
					return vlib.Outcome{Skip: true}
				}
				g = renderer.NewPoint(unproject(f.Points[0]))
			case 1:
				if len(f.Points) < 2 {
					return vlib.Outcome{Skip: true}
				}
				line := s2.Polyline{}
				for _, p := range f.Points {
					line = append(line, unproject(p))
				}
				g = renderer.NewLineString(&line)
			case 2:
				if len(f.Rings) == 0 {
					return vlib.Outcome{Skip: true}
				}
				var loops []*s2.Loop
				for _, r := range f.Rings {
					seen := map[XY]bool{}
					var ps []s2.Point
					for _, p := range r.Points {
						if seen[p] {
							return vlib.Outcome{Skip: true, Classes: []string{"skipped:repeated-vertex"}}
						}
						seen[p] = true
						ps = append(ps, unproject(p))
					}
					loop := s2.LoopFromPoints(ps)
					if len(ps) < 3 || loop.Validate() != nil || loop.Area() > 2*math.Pi || r.Level < 0 {
						return vlib.Outcome{Skip: true, Classes: []string{"skipped:invalid-ring"}}
					}
					loops = append(loops, loop)
					holes = holes || r.Level == 1
					islands = islands || r.Level == 2
				}
				polygon := s2.PolygonFromLoops(loops)
				// the case's nesting levels must be the polygon's
				for i := 0; i < polygon.NumLoops(); i++ {
					found := false
					for j, l := range loops {
						if l == polygon.Loop(i) {
							found = true
							depth := 0 // (this version of s2's Polygon.Parent is wrong)
							for _, other := range loops {
								if other != l && other.ContainsPoint(l.Vertex(0)) {
									depth++
								}
							}
							if (depth%2 == 1) != l.IsHole() {
								return vlib.Outcome{Skip: true, Classes: []string{"skipped:levels-not-nesting"}}
							}
							if depth != f.Rings[j].Level {
								return vlib.Outcome{Skip: true, Classes: []string{"skipped:levels-not-nesting"}}
							}
						}
					}
					if !found {
						return vlib.Outcome{Skip: true}
					}
				}
				if len(f.Rings) == 1 && len(f.Rings[0].Points) > 1000 {
					ps := make([]r2.Point, len(f.Rings[0].Points))
					for i := range ps {
						ps[i] = projection.Project(polygon.Loop(0).Vertex(i))
					}
					for _, p := range renderer.Simplify(ps, 5.0) {
						w.big = append(w.big, XY{int(p.X) - int(c.X)<<renderer.TileExtent, int(p.Y) - int(c.Y)<<renderer.TileExtent})
					}
				}
				g = renderer.NewPolygon(polygon)
			default:
				return vlib.Outcome{Skip: true}
			}
			rf := renderer.NewFeature(g)
			rf.ID = f.ID
			for k, v := range f.Tags {
				rf.Tags[k] = v
				values[v]++
				shared = shared || values[v] > 1
			}
			layer.AddFeature(rf)
			wants = append(wants, w)
		}
		tile.Layers = append(tile.Layers, layer)
	}
	encoded := renderer.EncodeTile(b6.Tile{X: c.X, Y: c.Y, Z: c.Z}, tile)
	// through the wire format, as a client reads it
	data, err := proto.Marshal(encoded)
	if err != nil {
		return vlib.Fail("encoded tile doesn't marshal: %v", err)
	}
	var read pb.TileProto
	if err := proto.Unmarshal(data, &read); err != nil {
		return vlib.Fail("encoded tile doesn't unmarshal: %v", err)
	}
	// layers without features are left out; the first layer is the background
	if len(read.Layers) == 0 || read.Layers[0].GetName() != "background" {
		return vlib.Fail("the tile's first layer isn't the background")
	}
	layers := read.Layers[1:]
	li := -1
	var layer *pb.TileProto_Layer
	fi := 0
	next := 0
	for _, w := range wants {
		if w.layer != li {
			if layer != nil && fi != len(layer.Features) {
				return vlib.Fail("layer %d (%q) has %d features, expected %d", li, layer.GetName(), len(layer.Features), fi)
			}
			if next >= len(layers) {
				return vlib.Fail("tile has %d layers besides the background; layer %d (%q) with features is missing", len(layers), w.layer, c.Layers[w.layer].Name)
			}
			layer, li, fi = layers[next], w.layer, 0
			next++
			if layer.GetName() != c.Layers[w.layer].Name || layer.GetExtent() != extent {
				return vlib.Fail("layer %d is named %q with extent %d, expected %q with %d", next-1, layer.GetName(), layer.GetExtent(), c.Layers[w.layer].Name, extent)
			}
		}
		if fi >= len(layer.Features) {
			return vlib.Fail("layer %q has %d features, expected more", layer.GetName(), len(layer.Features))
		}
		f := layer.Features[fi]
		what := fmt.Sprintf("layer %q feature %d", layer.GetName(), fi)
		fi++
		d, err := decode(f.Geometry)
		if err != nil {
			return vlib.Fail("%s: bad command stream %v: %v", what, f.Geometry, err)
		}
		switch w.feature.Kind {
		case 0:
			if f.GetType() != pb.TileProto_POINT || len(d.paths) != 1 || len(d.paths[0]) != 1 || d.closed[0] || d.paths[0][0] != w.feature.Points[0] {
				return vlib.Fail("%s: point %v decodes to type %s %v", what, w.feature.Points[0], f.GetType(), d.paths)
			}
		case 1:
			if f.GetType() != pb.TileProto_LINESTRING || len(d.paths) != 1 || d.closed[0] || fmt.Sprint(d.paths[0]) != fmt.Sprint(w.feature.Points) {
				return vlib.Fail("%s: line string %v decodes to type %s %v (closed %v)", what, w.feature.Points, f.GetType(), d.paths, d.closed)
			}
		case 2:
			if f.GetType() != pb.TileProto_POLYGON {
				return vlib.Fail("%s: polygon has type %s", what, f.GetType())
			}
			for i := range d.paths {
				if !d.closed[i] {
					return vlib.Fail("%s: ring %d %v isn't closed", what, i, d.paths[i])
				}
			}
			if w.big != nil {
				// Simplify keeps the first and last vertex, and the ring is closed implicitly
				if len(d.paths) != 1 || fmt.Sprint(d.paths[0]) != fmt.Sprint(w.big) {
					return vlib.Fail("%s: a ring of %d vertices decodes to %d rings, the first with %d vertices; expected the simplified ring of %d vertices", what, len(w.feature.Rings[0].Points), len(d.paths), len(d.paths[0]), len(w.big))
				}
				break
			}
			if len(d.paths) != len(w.feature.Rings) {
				return vlib.Fail("%s: polygon with %d rings decodes to %d rings", what, len(w.feature.Rings), len(d.paths))
			}
			used := make([]bool, len(d.paths))
			winding := 0.0
			for ri, r := range w.feature.Rings {
				found := -1
				for i := range d.paths {
					if !used[i] && sameCycle(d.paths[i], r.Points) {
						found = i
						break
					}
				}
				if found < 0 {
					return vlib.Fail("%s: ring %d (level %d) %v isn't among the decoded rings %v", what, ri, r.Level, r.Points, d.paths)
				}
				used[found] = true
				// exterior rings (even levels) all wind one way, interior rings the other
				a := area(d.paths[found])
				if r.Level%2 == 1 {
					a = -a
				}
				if a == 0 || (winding != 0 && (a > 0) != (winding > 0)) {
					return vlib.Fail("%s: ring %d at nesting level %d decodes to %v with area %v in tile coordinates, but earlier rings show exterior rings have areas of sign %v: exterior and interior rings must wind in opposite directions", what, ri, r.Level, d.paths[found], area(d.paths[found]), winding)
				}
				winding = a
			}
		}
		if (w.feature.ID != 0) != (f.Id != nil) || f.GetId() != w.feature.ID {
			return vlib.Fail("%s: id %d decodes to %v", what, w.feature.ID, f.Id)
		}
		if len(f.Tags)%2 != 0 {
			return vlib.Fail("%s: odd number of tag indices %v", what, f.Tags)
		}
		got := map[string]string{}
		for i := 0; i+1 < len(f.Tags); i += 2 {
			if int(f.Tags[i]) >= len(layer.Keys) || int(f.Tags[i+1]) >= len(layer.Values) {
				return vlib.Fail("%s: tag indices %v out of range of %d keys and %d values", what, f.Tags[i:i+2], len(layer.Keys), len(layer.Values))
			}
			k, v := layer.Keys[f.Tags[i]], layer.Values[f.Tags[i+1]]
			if _, ok := got[k]; ok || v.StringValue == nil {
				return vlib.Fail("%s: key %q decodes twice, or its value %v isn't a string", what, k, v)
			}
			got[k] = v.GetStringValue()
		}
		if len(got) != len(w.feature.Tags) {
			return vlib.Fail("%s: tags %v decode to %v", what, sortedTags(w.feature.Tags), sortedTags(got))
		}
		for k, v := range w.feature.Tags {
			if g, ok := got[k]; !ok || g != v {
				return vlib.Fail("%s: tags %v decode to %v", what, sortedTags(w.feature.Tags), sortedTags(got))
			}
		}
	}
	if layer != nil && fi != len(layer.Features) {
		return vlib.Fail("layer %q has %d features, expected %d", layer.GetName(), len(layer.Features), fi)
	}
	if next != len(layers) {
		return vlib.Fail("tile has %d layers besides the background, expected %d", len(layers), next)
	}
	out := vlib.Outcome{NonTrivial: holes || shared}
	if holes {
		out.Classes = append(out.Classes, "polygon-with-hole")
	}
	if islands {
		out.Classes = append(out.Classes, "shell-within-hole")
	}
	if shared {
		out.Classes = append(out.Classes, "value-shared-between-features")
	}
	for _, w := range wants {
		if w.big != nil {
			out.Classes = append(out.Classes, "simplified-ring")
		}
	}
	return out
}

func sortedTags(m map[string]string) []string {
	var out []string
	for k, v := range m {
		out = append(out, fmt.Sprintf("%q=%q", k, v))
	}
	sort.Strings(out)
	return out
}

// ---------------------------------------------------------------------------
// the encoder's command API directly, with arbitrary coordinates

type Cmd struct {
	Op  int    `json:"op"` // 0 StartFeature, 1 MoveTo+XY, 2 LineTo+XYs, 3 ClosePath, 4 string tag, 5 int64 tag, 6 int tag
	XYs []XY   `json:"xys,omitempty"`
	Key string `json:"key,omitempty"`
	Str string `json:"str,omitempty"`
	Int int64  `json:"int,omitempty,string"`
}

type DirectCase struct {
	OriginX int   `json:"origin_x"`
	OriginY int   `json:"origin_y"`
	Cmds    []Cmd `json:"cmds"`
}

func genDirect(t *rapid.T) DirectCase {
	coord := rapid.OneOf(rapid.IntRange(-8, 8), rapid.IntRange(0, 4095), rapid.IntRange(-(1<<29), 1<<29), rapid.SampledFrom([]int{-(1 << 29), 1 << 29, 1<<29 - 1, -1, 0}))
	c := DirectCase{OriginX: rapid.SampledFrom([]int{0, 4096, 1 << 20, 1 << 29}).Draw(t, "ox"), OriginY: rapid.SampledFrom([]int{0, 8192, 1 << 29}).Draw(t, "oy")}
	c.Cmds = append(c.Cmds, Cmd{Op: 0})
	for i, n := 0, rapid.IntRange(1, 20).Draw(t, "ncmds"); i < n; i++ {
		cmd := Cmd{Op: rapid.IntRange(0, 6).Draw(t, "op")}
		switch cmd.Op {
		case 1:
			cmd.XYs = []XY{{coord.Draw(t, "x"), coord.Draw(t, "y")}}
		case 2:
			for j, m := 0, rapid.IntRange(1, 5).Draw(t, "nxy"); j < m; j++ {
				cmd.XYs = append(cmd.XYs, XY{coord.Draw(t, "x"), coord.Draw(t, "y")})
			}
		case 4, 5, 6:
			cmd.Key = rapid.SampledFrom(keyPool).Draw(t, "key")
			cmd.Str = rapid.SampledFrom(valuePool).Draw(t, "str")
			cmd.Int = rapid.SampledFrom([]int64{0, 1, -1, 4096, math.MaxInt64, math.MinInt64, 1 << 31}).Draw(t, "int")
		}
		c.Cmds = append(c.Cmds, cmd)
	}
	return c
}

func checkDirect(c DirectCase) vlib.Outcome {
	if len(c.Cmds) == 0 || c.Cmds[0].Op != 0 {
		return vlib.Outcome{Skip: true}
	}
	e := renderer.NewEncoder(c.OriginX, c.OriginY, "direct", extent)
	type tag struct {
		key string
		str *string
		i   *int64
	}
	type feat struct {
		paths  [][]XY
		closed []bool
		tags   []tag
	}
	var model []*feat
	moved := false
	for _, cmd := range c.Cmds {
		for _, p := range cmd.XYs {
			if p[0] < -(1<<29) || p[0] > 1<<29 || p[1] < -(1<<29) || p[1] > 1<<29 {
				return vlib.Outcome{Skip: true}
			}
		}
		var f *feat
		if len(model) > 0 {
			f = model[len(model)-1]
		}
		switch cmd.Op {
		case 0:
			e.StartFeature()
			model = append(model, &feat{})
			moved = false
		case 1:
			if len(cmd.XYs) != 1 {
				return vlib.Outcome{Skip: true}
			}
			e.MoveTo(1)
			e.XY(c.OriginX+cmd.XYs[0][0], c.OriginY+cmd.XYs[0][1])
			f.paths = append(f.paths, []XY{cmd.XYs[0]})
			f.closed = append(f.closed, false)
			moved = true
		case 2:
			if !moved || len(cmd.XYs) == 0 {
				continue
			}
			e.LineTo(len(cmd.XYs))
			for _, p := range cmd.XYs {
				e.XY(c.OriginX+p[0], c.OriginY+p[1])
				f.paths[len(f.paths)-1] = append(f.paths[len(f.paths)-1], p)
			}
		case 3:
			if !moved || f.closed[len(f.paths)-1] {
				continue
			}
			e.ClosePath()
			f.closed[len(f.paths)-1] = true
		case 4:
			s := cmd.Str
			e.Tag(cmd.Key, s)
			f.tags = append(f.tags, tag{key: cmd.Key, str: &s})
		case 5:
			i := cmd.Int
			e.Tag(cmd.Key, i)
			f.tags = append(f.tags, tag{key: cmd.Key, i: &i})
		case 6:
			i := int64(int(cmd.Int))
			e.Tag(cmd.Key, int(cmd.Int))
			f.tags = append(f.tags, tag{key: cmd.Key, i: &i})
		default:
			return vlib.Outcome{Skip: true}
		}
	}
	data, err := proto.Marshal(e.Layer())
	if err != nil {
		return vlib.Fail("layer doesn't marshal: %v", err)
	}
	var layer pb.TileProto_Layer
	if err := proto.Unmarshal(data, &layer); err != nil {
		return vlib.Fail("layer doesn't unmarshal: %v", err)
	}
	if len(layer.Features) != len(model) {
		return vlib.Fail("%d features started, %d in the layer", len(model), len(layer.Features))
	}
	far, mixed := false, false
	for i, f := range model {
		d, err := decode(layer.Features[i].Geometry)
		if err != nil {
			return vlib.Fail("feature %d: bad command stream %v: %v", i, layer.Features[i].Geometry, err)
		}
		if fmt.Sprint(d.paths) != fmt.Sprint(f.paths) || fmt.Sprint(d.closed) != fmt.Sprint(f.closed) {
			return vlib.Fail("feature %d: wrote paths %v (closed %v) relative to the origin, decoded %v (closed %v)", i, f.paths, f.closed, d.paths, d.closed)
		}
		for _, p := range f.paths {
			for _, q := range p {
				far = far || q[0] < -4096 || q[0] > 8192
			}
		}
		ts := layer.Features[i].Tags
		if len(ts) != 2*len(f.tags) {
			return vlib.Fail("feature %d: %d tags written, %d indices", i, len(f.tags), len(ts))
		}
		strs, ints := false, false
		for j, t := range f.tags {
			if int(ts[2*j]) >= len(layer.Keys) || int(ts[2*j+1]) >= len(layer.Values) {
				return vlib.Fail("feature %d: tag indices out of range", i)
			}
			k, v := layer.Keys[ts[2*j]], layer.Values[ts[2*j+1]]
			ok := k == t.key
			if t.str != nil {
				ok = ok && v.StringValue != nil && v.IntValue == nil && v.GetStringValue() == *t.str
				strs = true
			} else {
				ok = ok && v.IntValue != nil && v.StringValue == nil && v.GetIntValue() == *t.i
				ints = true
			}
			if !ok {
				return vlib.Fail("feature %d: tag %d written as %q=%v decodes to %q=%v", i, j, t.key, fmtTag(t.str, t.i), k, v)
			}
		}
		mixed = mixed || (strs && ints)
	}
	seenK, seenV := map[string]bool{}, map[string]bool{}
	for _, k := range layer.Keys {
		if seenK[k] {
			return vlib.Fail("key %q is in the layer's key table twice", k)
		}
		seenK[k] = true
	}
	for _, v := range layer.Values {
		s := v.String()
		if seenV[s] {
			return vlib.Fail("value %v is in the layer's value table twice", v)
		}
		seenV[s] = true
	}
	out := vlib.Outcome{NonTrivial: len(model) > 1 || far}
	if far {
		out.Classes = append(out.Classes, "coordinates-far-outside-tile")
	}
	if mixed {
		out.Classes = append(out.Classes, "string-and-int-values")
	}
	return out
}

func fmtTag(s *string, i *int64) string {
	if s != nil {
		return fmt.Sprintf("%q", *s)
	}
	return fmt.Sprint(*i)
}

func TestPropTile(t *testing.T) {
	vlib.Run(t, vlib.Config{ID: "C33", Name: "tile", NoWAL: true,
		Rule: "tiles at zoom 0-19 with 1-3 layers of 0-4 features: points, line strings of 2-12 points and polygons (nested star-shaped rings to depth 3: holes, shells within holes, side-by-side holes, two shells; occasionally one ring of 1001-1300 vertices) given in tile units and unprojected to the sphere at pixel centres; ids incl. 0 and 2^64-1; 0-14 string tags from pools (shared values across features, empty strings, unicode); oracle: decoding the marshalled tile's command streams gives back the generated tile coordinates (rings up to rotation/direction; within a polygon all rings at even nesting levels have signed areas of one sign and all rings at odd levels the other), ids and tags; non-trivial = a polygon with a hole or a tag value shared between features"},
		gen, check)
}

func TestPropEncoder(t *testing.T) {
	vlib.Run(t, vlib.Config{ID: "C33", Name: "encoder", NoWAL: true,
		Rule: "sequences of 1-20 Encoder calls (StartFeature, MoveTo, LineTo with 1-5 points, ClosePath, string/int64/int tags) with coordinates from small, in-tile and +-2^29 ranges relative to origins up to 2^29; oracle: a decoder written from the vector tile specification reads back the written coordinates relative to the origin and the tags with their types, and key/value tables hold no duplicates; non-trivial = several features or coordinates far outside the tile"},
		genDirect, checkDirect)
}
