// C27: OSM PBF files read back what was written.
package c27

import (
	"bytes"
	"fmt"
	"math"
	"sync"
	"testing"

	"diagonal.works/b6/osm"
	"pgregory.net/rapid"
	"verif/vlib"
)

type Tag struct {
	K string `json:"k"`
	V string `json:"v"`
}

type Member struct {
	Type int    `json:"type"`
	ID   int64  `json:"id,string"`
	Role string `json:"role"`
}

type Element struct {
	Kind    int      `json:"kind"` // 0 node, 1 way, 2 relation
	ID      int64    `json:"id,string"`
	Lat     float64  `json:"lat,omitempty"`
	Lng     float64  `json:"lng,omitempty"`
	Nodes   []int64  `json:"nodes,omitempty"`
	Members []Member `json:"members,omitempty"`
	Tags    []Tag    `json:"tags,omitempty"`
	Repeat  int      `json:"repeat,omitempty"` // this element stands for a run of Repeat+1 elements with consecutive IDs
}

type Case struct {
	Elements []Element `json:"elements"`
	Cores    int       `json:"cores"`
}

var strs = []string{"", "highway", "name", "yes", "a", "é日本", "x y", "outer", "inner", "k=v"}

func genID(t *rapid.T) int64 {
	switch rapid.IntRange(0, 5).Draw(t, "idclass") {
	case 0:
		return int64(rapid.IntRange(-5, 5).Draw(t, "smallid"))
	case 1:
		return rapid.Int64().Draw(t, "anyid") / 4 // leave room for runs and deltas
	case 2:
		return int64(1)<<40 + int64(rapid.IntRange(0, 100).Draw(t, "bigid"))
	default:
		return int64(rapid.IntRange(1, 100000).Draw(t, "id"))
	}
}

func genTags(t *rapid.T) []Tag {
	n := rapid.IntRange(0, 3).Draw(t, "ntags")
	var out []Tag
	for i := 0; i < n; i++ {
		s := rapid.OneOf(rapid.SampledFrom(strs), rapid.StringN(0, 6, 12))
		out = append(out, Tag{s.Draw(t, "k"), s.Draw(t, "v")})
	}
	return out
}

func gen(t *rapid.T) Case {
	c := Case{Cores: rapid.SampledFrom([]int{1, 1, 2, 3, 4}).Draw(t, "cores")}
	n := rapid.IntRange(0, 25).Draw(t, "n")
	kind := rapid.IntRange(0, 2).Draw(t, "kind0")
	for i := 0; i < n; i++ {
		if rapid.IntRange(0, 3).Draw(t, "switch") == 0 {
			kind = rapid.IntRange(0, 2).Draw(t, "kind")
		}
		e := Element{Kind: kind, ID: genID(t), Tags: genTags(t)}
		switch kind {
		case 0:
			e.Lat = float64(rapid.IntRange(-900000000, 900000000).Draw(t, "lat")) / 1e7
			e.Lng = float64(rapid.IntRange(-1800000000, 1800000000).Draw(t, "lng")) / 1e7
			if rapid.IntRange(0, 4).Draw(t, "fine") == 0 { // not on the E7 grid
				e.Lat = rapid.Float64Range(-90, 90).Draw(t, "flat")
				e.Lng = rapid.Float64Range(-180, 180).Draw(t, "flng")
			}
		case 1:
			m := rapid.IntRange(1, 5).Draw(t, "nnodes")
			for j := 0; j < m; j++ {
				e.Nodes = append(e.Nodes, genID(t))
			}
		case 2:
			m := rapid.IntRange(0, 4).Draw(t, "nmembers")
			for j := 0; j < m; j++ {
				e.Members = append(e.Members, Member{Type: rapid.IntRange(0, 2).Draw(t, "mtype"), ID: genID(t), Role: rapid.SampledFrom(strs).Draw(t, "role")})
			}
		}
		if rapid.IntRange(0, 24).Draw(t, "run") == 0 {
			e.Repeat = rapid.SampledFrom([]int{7999, 8000, 8001, 16005}).Draw(t, "runlen")
		}
		c.Elements = append(c.Elements, e)
	}
	return c
}

func expand(c Case) []Element {
	var out []Element
	for _, e := range c.Elements {
		for r := 0; r <= e.Repeat; r++ {
			x := e
			x.Repeat = 0
			x.ID = e.ID + int64(r)
			if e.Kind == 0 {
				x.Lat = e.Lat + float64(r%1000)*1e-6
				if x.Lat > 90 {
					x.Lat = e.Lat
				}
			}
			x.Tags = append([]Tag{}, e.Tags...)
			if c.Cores > 1 {
				// several goroutines: a unique tag identifies each element; with one core elements
				// are compared by position and keep exactly their generated tags, often none
				x.Tags = append(x.Tags, Tag{"seq", fmt.Sprint(len(out))})
			}
			out = append(out, x)
		}
	}
	return out
}

func toOSM(e Element) osm.Element {
	tags := make(osm.Tags, 0, len(e.Tags))
	for _, t := range e.Tags {
		tags = append(tags, osm.Tag{Key: t.K, Value: t.V})
	}
	switch e.Kind {
	case 0:
		return &osm.Node{ID: osm.NodeID(e.ID), Location: osm.LatLng{Lat: e.Lat, Lng: e.Lng}, Tags: tags}
	case 1:
		w := &osm.Way{ID: osm.WayID(e.ID), Tags: tags}
		for _, n := range e.Nodes {
			w.Nodes = append(w.Nodes, osm.NodeID(n))
		}
		return w
	default:
		r := &osm.Relation{ID: osm.RelationID(e.ID), Tags: tags}
		for _, m := range e.Members {
			r.Members = append(r.Members, osm.Member{Type: osm.ElementType(m.Type), ID: osm.AnyID(m.ID), Role: m.Role})
		}
		return r
	}
}

func fromOSM(e osm.Element) Element {
	var out Element
	var tags osm.Tags
	switch x := e.(type) {
	case *osm.Node:
		out = Element{Kind: 0, ID: int64(x.ID), Lat: x.Location.Lat, Lng: x.Location.Lng}
		tags = x.Tags
	case *osm.Way:
		out = Element{Kind: 1, ID: int64(x.ID)}
		for _, n := range x.Nodes {
			out.Nodes = append(out.Nodes, int64(n))
		}
		tags = x.Tags
	case *osm.Relation:
		out = Element{Kind: 2, ID: int64(x.ID)}
		for _, m := range x.Members {
			out.Members = append(out.Members, Member{Type: int(m.Type), ID: int64(m.ID), Role: m.Role})
		}
		tags = x.Tags
	}
	for _, t := range tags {
		out.Tags = append(out.Tags, Tag{t.Key, t.Value})
	}
	return out
}

const step = 1e-7 // one granularity step (100 nanodegrees)

func same(a, b Element) bool {
	if a.Kind != b.Kind || a.ID != b.ID || fmt.Sprint(a.Nodes) != fmt.Sprint(b.Nodes) || fmt.Sprint(a.Members) != fmt.Sprint(b.Members) || fmt.Sprint(a.Tags) != fmt.Sprint(b.Tags) {
		return false
	}
	return math.Abs(a.Lat-b.Lat) <= step*1.0001+1e-12 && math.Abs(a.Lng-b.Lng) <= step*1.0001+1e-12
}

func check(c Case) vlib.Outcome {
	if c.Cores < 1 || c.Cores > 16 {
		return vlib.Outcome{Skip: true}
	}
	written := expand(c)
	for _, e := range written {
		if e.Kind < 0 || e.Kind > 2 || e.Kind == 1 && len(e.Nodes) == 0 || math.Abs(e.Lat) > 90 || math.Abs(e.Lng) > 180 || math.IsNaN(e.Lat) || math.IsNaN(e.Lng) {
			return vlib.Outcome{Skip: true}
		}
	}
	var buf bytes.Buffer
	w, err := osm.NewWriter(&buf)
	if err != nil {
		return vlib.Fail("NewWriter: %v", err)
	}
	for i, e := range written {
		if err := w.WriteElement(toOSM(e)); err != nil {
			return vlib.Fail("WriteElement %d: %v", i, err)
		}
	}
	if err := w.Flush(); err != nil {
		return vlib.Fail("Flush: %v", err)
	}
	var lock sync.Mutex
	perGoroutine := map[int][]Element{}
	var all []Element
	err = osm.ReadPBFWithOptions(bytes.NewReader(buf.Bytes()), func(e osm.Element, g int) error {
		x := fromOSM(e)
		lock.Lock()
		perGoroutine[g] = append(perGoroutine[g], x)
		all = append(all, x)
		lock.Unlock()
		return nil
	}, osm.ReadOptions{Cores: c.Cores})
	if err != nil {
		return vlib.Fail("ReadPBFWithOptions: %v", err)
	}
	if len(all) != len(written) {
		return vlib.Fail("wrote %d elements, read %d (cores %d)", len(written), len(all), c.Cores)
	}
	if c.Cores == 1 {
		for i := range written {
			if !same(written[i], all[i]) {
				return vlib.Fail("element %d: wrote %+v, read %+v", i, written[i], all[i])
			}
		}
	} else {
		// every written element carries a unique "seq" tag: each goroutine must see increasing
		// sequence numbers (blocks are handed out in file order), and together they must see all
		seen := make([]bool, len(written))
		for g := 0; g < c.Cores; g++ {
			last := -1
			for _, x := range perGoroutine[g] {
				seq := -1
				for _, tg := range x.Tags {
					if tg.K == "seq" {
						fmt.Sscan(tg.V, &seq)
					}
				}
				if seq < 0 || seq >= len(written) || seen[seq] {
					return vlib.Fail("goroutine %d read %+v whose sequence tag is missing, unknown or already seen (cores %d)", g, x, c.Cores)
				}
				seen[seq] = true
				if !same(written[seq], x) {
					return vlib.Fail("element %d: wrote %+v, goroutine %d read %+v", seq, written[seq], g, x)
				}
				if seq < last {
					return vlib.Fail("goroutine %d read element %d after element %d (cores %d)", g, seq, last, c.Cores)
				}
				last = seq
			}
		}
	}
	// the plain single-goroutine reader as well
	i := 0
	var plainErr error
	if err := osm.ReadPBF(bytes.NewReader(buf.Bytes()), func(e osm.Element) error {
		if i < len(written) && !same(written[i], fromOSM(e)) && plainErr == nil {
			plainErr = fmt.Errorf("ReadPBF element %d: wrote %+v, read %+v", i, written[i], fromOSM(e))
		}
		i++
		return nil
	}); err != nil {
		return vlib.Fail("ReadPBF: %v", err)
	}
	if plainErr != nil {
		return vlib.Outcome{Err: plainErr}
	}
	if i != len(written) {
		return vlib.Fail("ReadPBF yields %d elements, wrote %d", i, len(written))
	}
	kinds := map[int]bool{}
	for _, e := range c.Elements {
		kinds[e.Kind] = true
	}
	out := vlib.Outcome{NonTrivial: len(kinds) >= 2 || len(written) > 8000, Classes: []string{fmt.Sprintf("cores=%d", c.Cores)}}
	for i := 1; i < len(written); i++ {
		if len(written[i].Tags) == 0 && len(written[i-1].Tags) > 0 && written[i].Kind == written[i-1].Kind {
			out.Classes = append(out.Classes, "untagged-after-tagged")
			break
		}
	}
	if len(written) > 8000 {
		out.Classes = append(out.Classes, ">8000-elements")
	}
	return out
}

func TestProp(t *testing.T) {
	vlib.Run(t, vlib.Config{ID: "C27", Name: "pbf-roundtrip", CaseTimeout: 120e9,
		Rule: "0-25 element specifications in any interleaving of nodes, ways and relations, each occasionally standing for a run of 8000, 8001, 8002 or 16006 consecutive elements (block splits); IDs negative, small, ~2^40 and arbitrary; tags and roles from a pool with empty, repeated, non-ASCII and arbitrary strings; coordinates on and off the E7 grid in +-90/+-180; with one core elements carry exactly their generated tags (a quarter have none), with several a unique sequence tag is added to each; written with osm.Writer and read with ReadPBFWithOptions (1-4 cores) and ReadPBF; oracle: with one core the identical sequence, with several the same multiset and each goroutine's elements in file order; coordinates within one granularity step; non-trivial = >= 2 element kinds or more than 8000 elements"},
		gen, check)
}
