// Package vlib is the shared runtime of every check: it runs a generated
// campaign (rapid) or a replay of saved JSON cases against a check function,
// keeps a write-ahead copy of the case being executed (so the driver can
// attribute a process crash or hang to a concrete input), records the last
// failing (i.e. shrunk) case, and writes per-run statistics that the driver
// turns into the evidence file.
package vlib

import (
	"encoding/json"
	"fmt"
	"hash/fnv"
	"os"
	"path/filepath"
	"runtime"
	"sort"
	"strings"
	"sync"
	"testing"
	"time"

	"pgregory.net/rapid"
)

// Outcome is what a check function reports for one case.
type Outcome struct {
	Err        error    // non-nil: the property is violated by this case
	NonTrivial bool     // the case is non-trivial by the check's stated rule
	Classes    []string // labels for the class histogram
	Skip       bool     // case outside the property's domain or excluded as a known finding
}

func Fail(format string, args ...interface{}) Outcome {
	return Outcome{Err: fmt.Errorf(format, args...)}
}

// Config describes one campaign.
type Config struct {
	ID          string        // property id, e.g. "C39"
	Name        string        // sub-campaign name (one property may have several)
	Rule        string        // how cases are generated and what non-trivial means
	CaseTimeout time.Duration // hard watchdog per case; 0 = 30s
	NoWAL       bool          // pure in-process computations: skip the per-case write-ahead file and watchdog
}

type stats struct {
	ID          string         `json:"id"`
	Name        string         `json:"name"`
	Rule        string         `json:"rule"`
	Evaluations int            `json:"evaluations"`
	Skipped     int            `json:"skipped"`
	NonTrivial  []string       `json:"nontrivial_fingerprints"`
	Classes     map[string]int `json:"classes"`
	Samples     []interface{}  `json:"samples"`
	Exhaustive  bool           `json:"exhaustive,omitempty"`
	Failed      bool           `json:"failed"`
	FailMessage string         `json:"fail_message,omitempty"`

	nt map[uint64]struct{}
}

type Recorder struct {
	mu       sync.Mutex
	cfg      Config
	st       stats
	failed   bool
	walPath  string
	failPath string
}

func envOr(k, d string) string {
	if v := os.Getenv(k); v != "" {
		return v
	}
	return d
}

// Root returns the /verif directory (derived from this source file's path so
// `go test` run by hand works too).
func Root() string {
	if v := os.Getenv("VERIF_ROOT"); v != "" {
		return v
	}
	_, file, _, _ := runtime.Caller(0)
	return filepath.Dir(filepath.Dir(filepath.Dir(file)))
}

func Tier() string { return envOr("VERIF_TIER", "quick") }

func workDir() string {
	d := envOr("VERIF_WORK", filepath.Join(os.TempDir(), "verif-work"))
	os.MkdirAll(d, 0o755)
	return d
}

func NewRecorder(cfg Config) *Recorder {
	if cfg.CaseTimeout == 0 {
		cfg.CaseTimeout = 30 * time.Second
	}
	r := &Recorder{cfg: cfg}
	r.st = stats{ID: cfg.ID, Name: cfg.Name, Rule: cfg.Rule, Classes: map[string]int{}, nt: map[uint64]struct{}{}}
	w := workDir()
	shard := envOr("VERIF_SHARD", "0")
	r.walPath = filepath.Join(w, fmt.Sprintf("wal-%s-%s.json", cfg.Name, shard))
	r.failPath = filepath.Join(w, fmt.Sprintf("lastfail-%s-%s.json", cfg.Name, shard))
	return r
}

type walRecord struct {
	ID   string          `json:"property"`
	Name string          `json:"campaign"`
	Case json.RawMessage `json:"case"`
	Msg  string          `json:"message,omitempty"`
}

func (r *Recorder) writeRecord(path string, data []byte, msg string) {
	b, _ := json.Marshal(walRecord{ID: r.cfg.ID, Name: r.cfg.Name, Case: data, Msg: msg})
	os.WriteFile(path, b, 0o644)
}

// Exec runs check on c with write-ahead logging, panic capture and a hard
// watchdog, and does the bookkeeping. It returns the outcome.
func Exec[C any](r *Recorder, c C, check func(C) Outcome) Outcome {
	data, err := json.Marshal(c)
	if err != nil {
		panic(fmt.Sprintf("vlib: case does not marshal: %v", err))
	}
	if r.cfg.NoWAL {
		return r.account(data, safely(c, check))
	}
	r.writeRecord(r.walPath, data, "")
	timer := time.AfterFunc(r.cfg.CaseTimeout, func() {
		fmt.Fprintf(os.Stderr, "\nVERIF-HANG campaign=%s case exceeded %s\n", r.cfg.Name, r.cfg.CaseTimeout)
		buf := make([]byte, 1<<16)
		n := runtime.Stack(buf, true)
		os.Stderr.Write(buf[:n])
		r.flush()
		os.Exit(3)
	})
	out := safely(c, check)
	timer.Stop()
	return r.account(data, out)
}

func (r *Recorder) account(data []byte, out Outcome) Outcome {
	r.mu.Lock()
	defer r.mu.Unlock()
	if out.Skip {
		if !r.failed { // executions during shrinking are not counted
			r.st.Skipped++
			for _, c := range out.Classes {
				r.st.Classes[c]++
			}
		}
		return out
	}
	if out.Err != nil {
		r.failed = true
		r.st.Failed = true
		r.st.FailMessage = out.Err.Error()
		r.writeRecord(r.failPath, data, out.Err.Error())
		return out
	}
	if !r.failed { // executions during shrinking are not counted
		r.st.Evaluations++
		for _, c := range out.Classes {
			r.st.Classes[c]++
		}
		if out.NonTrivial {
			h := fnv.New64a()
			h.Write(data)
			fp := h.Sum64()
			if _, ok := r.st.nt[fp]; !ok {
				r.st.nt[fp] = struct{}{}
				if len(r.st.Samples) < 3 && len(data) < 6000 {
					var v interface{}
					json.Unmarshal(data, &v)
					r.st.Samples = append(r.st.Samples, v)
				}
			}
		}
	}
	return out
}

func safely[C any](c C, check func(C) Outcome) (out Outcome) {
	defer func() {
		if p := recover(); p != nil {
			out = Outcome{Err: fmt.Errorf("panic: %v\n%s", p, stackText())}
		}
	}()
	return check(c)
}

// stackText formats the panicking stack deterministically (no goroutine ids
// or argument values): rapid only shrinks when a re-run gives the same message.
func stackText() string {
	pcs := make([]uintptr, 48)
	n := runtime.Callers(3, pcs)
	frames := runtime.CallersFrames(pcs[:n])
	var b strings.Builder
	for i := 0; i < 24; i++ {
		f, more := frames.Next()
		if strings.HasPrefix(f.Function, "runtime.") && i < 3 {
			if !more {
				break
			}
			continue
		}
		fmt.Fprintf(&b, "    %s (%s:%d)\n", f.Function, filepath.Base(f.File), f.Line)
		if !more || strings.HasPrefix(f.Function, "verif/vlib.") {
			break
		}
	}
	return b.String()
}

func (r *Recorder) SetExhaustive() { r.st.Exhaustive = true }

func (r *Recorder) flush() {
	r.mu.Lock()
	defer r.mu.Unlock()
	dir := os.Getenv("VERIF_STATS")
	if dir == "" {
		return
	}
	os.MkdirAll(dir, 0o755)
	r.st.NonTrivial = r.st.NonTrivial[:0]
	for fp := range r.st.nt {
		r.st.NonTrivial = append(r.st.NonTrivial, fmt.Sprintf("%016x", fp))
	}
	sort.Strings(r.st.NonTrivial)
	b, _ := json.Marshal(r.st)
	os.WriteFile(filepath.Join(dir, fmt.Sprintf("%s-%s.json", r.cfg.Name, envOr("VERIF_SHARD", "0"))), b, 0o644)
}

// Run is the entry point of a check: with VERIF_REPLAY set it decodes the
// saved case(s) and runs check directly, bypassing rapid; otherwise it runs a
// rapid campaign of gen+check.
func Run[C any](t *testing.T, cfg Config, gen func(*rapid.T) C, check func(C) Outcome) {
	r := NewRecorder(cfg)
	if Replay(t, r, check) {
		return
	}
	defer r.flush()
	os.RemoveAll(filepath.Join("testdata", "rapid")) // never replay stale rapid fail files
	rapid.Check(t, func(rt *rapid.T) {
		c := gen(rt)
		out := Exec(r, c, check)
		if out.Err != nil {
			rt.Fatalf("%s/%s: %v", cfg.ID, cfg.Name, out.Err)
		}
	})
}

// Replay handles VERIF_REPLAY (a file or a comma separated list). It returns
// true if replay mode was active. Records for other campaigns are ignored.
func Replay[C any](t *testing.T, r *Recorder, check func(C) Outcome) bool {
	files := os.Getenv("VERIF_REPLAY")
	if files == "" {
		return false
	}
	for _, f := range strings.Split(files, ",") {
		b, err := os.ReadFile(f)
		if err != nil {
			t.Fatalf("replay: %v", err)
		}
		var rec walRecord
		if err := json.Unmarshal(b, &rec); err != nil {
			t.Fatalf("replay: %s: %v", f, err)
		}
		if rec.Name != r.cfg.Name {
			continue
		}
		var c C
		if err := json.Unmarshal(rec.Case, &c); err != nil {
			t.Fatalf("replay: %s: bad case: %v", f, err)
		}
		out := Exec(r, c, check)
		switch {
		case out.Skip:
			fmt.Printf("REPLAY-RESULT file=%s campaign=%s status=skip\n", f, r.cfg.Name)
		case out.Err != nil:
			fmt.Printf("REPLAY-RESULT file=%s campaign=%s status=fail\n", f, r.cfg.Name)
			t.Errorf("replay %s: %v", f, out.Err)
		default:
			fmt.Printf("REPLAY-RESULT file=%s campaign=%s status=pass\n", f, r.cfg.Name)
		}
	}
	return true
}

// Direct returns a recorder for checks that enumerate cases themselves
// (exhaustive small domains). Call Case for each; Done at the end.
type DirectRun struct {
	t *testing.T
	r *Recorder
}

func Direct(t *testing.T, cfg Config) *DirectRun {
	return &DirectRun{t: t, r: NewRecorder(cfg)}
}

func DirectCase[C any](d *DirectRun, c C, check func(C) Outcome) bool {
	out := Exec(d.r, c, check)
	if out.Err != nil {
		d.r.flush()
		d.t.Fatalf("%s/%s: %v", d.r.cfg.ID, d.r.cfg.Name, out.Err)
		return false
	}
	return true
}

func (d *DirectRun) Done(exhaustive bool) {
	if exhaustive {
		d.r.SetExhaustive()
	}
	d.r.flush()
}

func (d *DirectRun) Recorder() *Recorder { return d.r }

// ---------------------------------------------------------------------------
// Known findings

type Finding struct {
	Property  string `json:"property"`
	ID        string `json:"id"`
	Status    string `json:"status"` // "known" or "fixed"
	Signature string `json:"signature"`
	Replay    string `json:"replay"`
	What      string `json:"what"`
	Commit    string `json:"commit,omitempty"`
}

var (
	knownOnce sync.Once
	knownSigs map[string]bool
)

// Known reports whether a *known* (unrepaired) finding with this signature is
// listed in known_findings.json. Generators use it to steer away from the
// finding so the search continues behind it. With VERIF_IGNORE_KNOWN=1 (used
// when replaying the finding itself) it is always false.
func Known(sig string) bool {
	knownOnce.Do(func() {
		knownSigs = map[string]bool{}
		if os.Getenv("VERIF_IGNORE_KNOWN") == "1" {
			return
		}
		b, err := os.ReadFile(filepath.Join(Root(), "known_findings.json"))
		if err != nil {
			return
		}
		var fs struct {
			Findings []Finding `json:"findings"`
		}
		if json.Unmarshal(b, &fs) != nil {
			return
		}
		for _, f := range fs.Findings {
			if f.Status == "known" {
				knownSigs[f.Signature] = true
			}
		}
	})
	return knownSigs[sig]
}

// Excluded is the outcome for a case steered away from a known finding.
func Excluded(sig string) Outcome {
	return Outcome{Skip: true, Classes: []string{"excluded:" + sig}}
}
