// C09: low-level binary containers are lossless.
package c09

import (
	"bytes"
	"fmt"
	"sort"
	"sync"
	"testing"

	"diagonal.works/b6/encoding"
	"pgregory.net/rapid"
	"verif/gen"
	"verif/vlib"
)

// ---------------------------------------------------------------------------
// integer sequences

type IntsCase struct {
	U []uint64 `json:"u"`
	I []int64  `json:"i"`
	W []int    `json:"extra_width"` // per U element: extra bytes beyond the minimal fixed width
}

func genInts(t *rapid.T) IntsCase {
	c := IntsCase{
		U: rapid.SliceOfN(gen.U64(), 0, 40).Draw(t, "u"),
		I: rapid.SliceOfN(gen.I64(), 0, 40).Draw(t, "i"),
	}
	for range c.U {
		c.W = append(c.W, rapid.IntRange(0, 7).Draw(t, "w"))
	}
	return c
}

func checkInts(c IntsCase) vlib.Outcome {
	out := vlib.Outcome{}
	buf := make([]byte, 11*(len(c.U)+len(c.I))+16)
	n := encoding.MarshalDeltaCodedUint64s(c.U, buf)
	got, m := encoding.UnmarshalDeltaCodedUint64(nil, len(c.U), buf)
	if n != m {
		return vlib.Fail("delta uint64: wrote %d bytes, read %d", n, m)
	}
	if len(got) != len(c.U) {
		return vlib.Fail("delta uint64: %d values back from %d", len(got), len(c.U))
	}
	wrap := false
	for i := range c.U {
		if got[i] != c.U[i] {
			return vlib.Fail("delta uint64: element %d: wrote %d read %d", i, c.U[i], got[i])
		}
		if i > 0 && (c.U[i] >= 1<<63) != (c.U[i-1] >= 1<<63) {
			wrap = true
		}
	}
	ints := make([]int, len(c.I))
	for i, v := range c.I {
		ints[i] = int(v)
	}
	n = encoding.MarshalDeltaCodedInts(ints, buf)
	gotI, m := encoding.UnmarshalDeltaCodedInts(nil, len(ints), buf)
	if n != m || len(gotI) != len(ints) {
		return vlib.Fail("delta ints: wrote %d bytes/%d values, read %d bytes/%d values", n, len(ints), m, len(gotI))
	}
	for i := range ints {
		if gotI[i] != ints[i] {
			return vlib.Fail("delta ints: element %d: wrote %d read %d", i, ints[i], gotI[i])
		}
		if i > 0 && (ints[i] < 0) != (ints[i-1] < 0) && (ints[i] > 1<<62 || ints[i] < -(1<<62)) {
			wrap = true
		}
		if z := encoding.ZigzagDecode(encoding.ZigzagEncode(c.I[i])); z != c.I[i] {
			return vlib.Fail("zigzag: %d -> %d", c.I[i], z)
		}
	}
	for i, v := range c.U {
		if z := encoding.ZigzagEncode(encoding.ZigzagDecode(v)); z != v {
			return vlib.Fail("zigzag decode/encode: %d -> %d", v, z)
		}
		l := encoding.Uint64Length(v)
		if i < len(c.W) && l+c.W[i] <= 8 {
			l += c.W[i]
		}
		var b [9]byte
		b[l] = 0xa5
		encoding.MarshalUint64(v, l, b[:])
		if r := encoding.UnmarshalUint64(l, b[:]); r != v || b[l] != 0xa5 {
			return vlib.Fail("fixed width: %d with %d bytes read back as %d (guard byte %x)", v, l, r, b[l])
		}
	}
	out.NonTrivial = wrap
	if wrap {
		out.Classes = append(out.Classes, "wrap-around-delta")
	}
	return out
}

func TestPropInts(t *testing.T) {
	vlib.Run(t, vlib.Config{ID: "C09", Name: "ints",
		Rule: "sequences of 0-40 uint64 / int values from a boundary-biased mixture (0, small, 2^k+-2, bit 63, extremes) through delta+zigzag varint coding, zigzag both ways and fixed-width coding at every legal width; non-trivial = a delta crosses the sign/bit-63 boundary"},
		genInts, checkInts)
}

// ---------------------------------------------------------------------------
// byte arrays and string tables

type ArrWrite struct {
	Item   int      `json:"item"`
	Chunks [][]byte `json:"chunks"`
}

type ArraysCase struct {
	Items  int        `json:"items"`
	Offset int        `json:"offset"`
	Writes []ArrWrite `json:"writes"`       // in write order
	Order  []int      `json:"reserve_order"` // permutation hint for reservation order
	Split  bool       `json:"split_reservations"`
}

func genArrays(t *rapid.T) ArraysCase {
	c := ArraysCase{Items: rapid.IntRange(1, 12).Draw(t, "items"), Offset: rapid.SampledFrom([]int{0, 1, 7, 300}).Draw(t, "offset"), Split: rapid.Bool().Draw(t, "split")}
	n := rapid.IntRange(0, 20).Draw(t, "writes")
	for i := 0; i < n; i++ {
		w := ArrWrite{Item: rapid.IntRange(0, c.Items-1).Draw(t, "item")}
		k := rapid.IntRange(1, 3).Draw(t, "chunks")
		for j := 0; j < k; j++ {
			var l int
			switch rapid.IntRange(0, 5).Draw(t, "lenclass") {
			case 0:
				l = 0
			case 1:
				l = rapid.IntRange(250, 260).Draw(t, "len")
			case 2:
				l = rapid.IntRange(65500, 65600).Draw(t, "len")
			default:
				l = rapid.IntRange(0, 20).Draw(t, "len")
			}
			seed := rapid.Byte().Draw(t, "fill")
			b := make([]byte, l)
			for x := range b {
				b[x] = seed + byte(x*7)
			}
			w.Chunks = append(w.Chunks, b)
		}
		c.Writes = append(c.Writes, w)
		c.Order = append(c.Order, rapid.IntRange(0, 1000).Draw(t, "order"))
	}
	return c
}

func checkArrays(c ArraysCase) vlib.Outcome {
	if c.Items < 1 || c.Offset < 0 || len(c.Order) < len(c.Writes) {
		return vlib.Outcome{Skip: true}
	}
	for _, w := range c.Writes {
		if w.Item < 0 || w.Item >= c.Items {
			return vlib.Outcome{Skip: true}
		}
	}
	b := encoding.NewByteArraysBuilder(c.Items)
	idx := make([]int, len(c.Writes))
	for i := range idx {
		idx[i] = i
	}
	sort.SliceStable(idx, func(a, b int) bool { return c.Order[idx[a]] < c.Order[idx[b]] })
	model := make([][]byte, c.Items)
	total := 0
	for _, i := range idx {
		w := c.Writes[i]
		l := 0
		for _, ch := range w.Chunks {
			if c.Split {
				b.Reserve(w.Item, len(ch))
			}
			l += len(ch)
		}
		if !c.Split {
			b.Reserve(w.Item, l)
		}
		total += l
	}
	var buf encoding.Buffer
	end, err := b.WriteHeader(&buf, encoding.Offset(c.Offset))
	if err != nil {
		return vlib.Fail("WriteHeader: %v", err)
	}
	for _, w := range c.Writes {
		if err := b.WriteItem(&buf, w.Item, w.Chunks...); err != nil {
			return vlib.Fail("WriteItem: %v", err)
		}
		for _, ch := range w.Chunks {
			model[w.Item] = append(model[w.Item], ch...)
		}
	}
	data := buf.Bytes()
	if len(data) < int(end) { // trailing empty region is never written
		data = append(data, make([]byte, int(end)-len(data))...)
	}
	if int(end)-c.Offset != b.Length() {
		return vlib.Fail("WriteHeader returned end offset %d (start %d) but Length() = %d", end, c.Offset, b.Length())
	}
	a := encoding.NewByteArrays(data[c.Offset:])
	if a.NumItems() != c.Items {
		return vlib.Fail("NumItems %d, wrote %d", a.NumItems(), c.Items)
	}
	if a.Length() != b.Length() {
		return vlib.Fail("reader Length %d, builder Length %d", a.Length(), b.Length())
	}
	maxLen := 0
	multi := false
	for i := 0; i < c.Items; i++ {
		if !bytes.Equal(a.Item(i), model[i]) {
			return vlib.Fail("item %d: read %d bytes %.40x, wrote %d bytes %.40x", i, len(a.Item(i)), a.Item(i), len(model[i]), model[i])
		}
		if len(model[i]) > maxLen {
			maxLen = len(model[i])
		}
	}
	if a.MaxItemLength() != maxLen {
		return vlib.Fail("MaxItemLength %d, longest item %d", a.MaxItemLength(), maxLen)
	}
	per := map[int]int{}
	for _, w := range c.Writes {
		per[w.Item]++
		if per[w.Item] > 1 {
			multi = true
		}
	}
	out := vlib.Outcome{NonTrivial: multi && total > 0}
	if total > 255 {
		out.Classes = append(out.Classes, "offsets>1byte")
	}
	if total > 65535 {
		out.Classes = append(out.Classes, "offsets>2bytes")
	}
	return out
}

func TestPropArrays(t *testing.T) {
	vlib.Run(t, vlib.Config{ID: "C09", Name: "bytearrays",
		Rule: "byte-array tables of 1-12 items, 0-20 writes of 1-3 chunks (lengths 0, small, ~256, ~65536) reserved in a generated order (whole or per chunk) at a generated file offset; every item must read back as the concatenation of its writes; non-trivial = some item written more than once"},
		genArrays, checkArrays)
}

type StringsCase struct {
	Adds   []string `json:"adds"`
	Probes []string `json:"probes"`
	Offset int      `json:"offset"`
}

var stringPool = []string{"", "a", "b", "ab", "highway", "é", "日本", "a\x00b", "name", "x y", "0"}

func genStrings(t *rapid.T) StringsCase {
	s := rapid.OneOf(rapid.SampledFrom(stringPool), rapid.String())
	return StringsCase{
		Adds:   rapid.SliceOfN(s, 1, 30).Draw(t, "adds"),
		Probes: rapid.SliceOfN(s, 0, 5).Draw(t, "probes"),
		Offset: rapid.SampledFrom([]int{0, 3, 100}).Draw(t, "offset"),
	}
}

func checkStrings(c StringsCase) vlib.Outcome {
	if len(c.Adds) == 0 || c.Offset < 0 {
		return vlib.Outcome{Skip: true}
	}
	b := encoding.NewStringTableBuilder()
	distinct := map[string]int{}
	for _, s := range c.Adds {
		b.Add(s)
		distinct[s]++
	}
	if b.NumStrings() != len(distinct) {
		return vlib.Fail("NumStrings %d, distinct strings %d", b.NumStrings(), len(distinct))
	}
	var buf encoding.Buffer
	end, err := b.Write(&buf, encoding.Offset(c.Offset))
	if err != nil {
		return vlib.Fail("Write: %v", err)
	}
	if int(end)-c.Offset != b.Length() {
		return vlib.Fail("Write returned end %d from start %d but Length() = %d", end, c.Offset, b.Length())
	}
	data := buf.Bytes()
	if len(data) < int(end) {
		data = append(data, make([]byte, int(end)-len(data))...)
	}
	table := encoding.NewStringTable(data[c.Offset:])
	seen := map[int]string{}
	dup := false
	keys := make([]string, 0, len(distinct))
	for s := range distinct {
		keys = append(keys, s)
	}
	sort.Strings(keys)
	for _, s := range keys {
		n := distinct[s]
		i := b.Lookup(s)
		if i < 0 || i >= len(distinct) {
			return vlib.Fail("Lookup(%q) = %d outside [0,%d)", s, i, len(distinct))
		}
		if other, ok := seen[i]; ok {
			return vlib.Fail("strings %q and %q share index %d", s, other, i)
		}
		seen[i] = s
		if got := table.Lookup(i); got != s {
			return vlib.Fail("string %q written at %d reads back as %q", s, i, got)
		}
		if !table.Equal(i, s) {
			return vlib.Fail("Equal(%d, %q) false", i, s)
		}
		for _, p := range append(c.Probes, s+"x") {
			if table.Equal(i, p) != (p == s) {
				return vlib.Fail("Equal(%d=%q, %q) = %v", i, s, p, table.Equal(i, p))
			}
		}
		if n > 1 {
			dup = true
		}
	}
	return vlib.Outcome{NonTrivial: dup && len(distinct) > 1}
}

func TestPropStrings(t *testing.T) {
	vlib.Run(t, vlib.Config{ID: "C09", Name: "stringtable",
		Rule: "string tables of 1-30 added strings (pool with empty, multi-byte, NUL-containing strings plus arbitrary strings, duplicates common) written at a generated offset; every distinct string must read back at its own index; non-trivial = a duplicate and >= 2 distinct strings"},
		genStrings, checkStrings)
}

// ---------------------------------------------------------------------------
// uint64 map

type Entry struct {
	ID   uint64 `json:"id,string"`
	Tag  int    `json:"tag"`
	Data []byte `json:"data"`
}

type MapCase struct {
	BucketBits int      `json:"bucket_bits"`
	TagBits    int      `json:"tag_bits"`
	Entries    []Entry  `json:"entries"`
	Absent     []uint64 `json:"absent"`
	Goroutines int      `json:"goroutines"`
	Offset     int      `json:"offset"`
}

func genMap(t *rapid.T) MapCase {
	c := MapCase{
		BucketBits: rapid.IntRange(0, 10).Draw(t, "bucketBits"),
		TagBits:    rapid.IntRange(0, 4).Draw(t, "tagBits"),
		Goroutines: rapid.IntRange(1, 4).Draw(t, "goroutines"),
		Offset:     rapid.SampledFrom([]int{0, 5}).Draw(t, "offset"),
	}
	if vlib.Known("c09-bucketbits-lt-tagbits") && c.BucketBits < c.TagBits {
		c.BucketBits = c.TagBits
	}
	n := rapid.IntRange(0, 30).Draw(t, "entries")
	var ids []uint64
	for i := 0; i < n; i++ {
		var id uint64
		if len(ids) > 0 && rapid.IntRange(0, 3).Draw(t, "reuse") == 0 {
			id = rapid.SampledFrom(ids).Draw(t, "sameid")
		} else if len(ids) > 0 && rapid.IntRange(0, 4).Draw(t, "collide") == 0 {
			// same bucket as an existing ID, different high bits
			base := rapid.SampledFrom(ids).Draw(t, "base")
			bit := rapid.UintRange(uint(c.BucketBits), 63).Draw(t, "bit")
			id = base ^ (1 << bit)
		} else {
			id = gen.U64().Draw(t, "id")
		}
		ids = append(ids, id)
		c.Entries = append(c.Entries, Entry{ID: id, Tag: rapid.IntRange(0, (1<<c.TagBits)-1).Draw(t, "tag"),
			Data: rapid.SliceOfN(rapid.Byte(), 0, 12).Draw(t, "data")})
	}
	na := rapid.IntRange(0, 6).Draw(t, "absent")
	for i := 0; i < na; i++ {
		if len(ids) > 0 && rapid.Bool().Draw(t, "near") {
			base := rapid.SampledFrom(ids).Draw(t, "base")
			c.Absent = append(c.Absent, base^(1<<rapid.UintRange(0, 63).Draw(t, "bit")))
		} else {
			c.Absent = append(c.Absent, gen.U64().Draw(t, "absent"))
		}
	}
	return c
}

func key(e encoding.Tagged) string { return fmt.Sprintf("%d:%x", e.Tag, e.Data) }

func multiset(es []encoding.Tagged) []string {
	out := make([]string, len(es))
	for i, e := range es {
		out[i] = key(e)
	}
	sort.Strings(out)
	return out
}

func checkMap(c MapCase) vlib.Outcome {
	if c.BucketBits < 0 || c.BucketBits > 12 || c.TagBits < 0 || c.TagBits > 8 || c.Goroutines < 1 || c.Goroutines > 16 || c.Offset < 0 {
		return vlib.Outcome{Skip: true}
	}
	highLoss := false
	for _, e := range c.Entries {
		if e.Tag < 0 || e.Tag >= 1<<c.TagBits {
			return vlib.Outcome{Skip: true}
		}
		if c.TagBits > 0 && e.ID>>(64-uint(c.TagBits)) != 0 {
			highLoss = true
		}
	}
	if vlib.Known("c09-bucketbits-lt-tagbits") && c.BucketBits < c.TagBits {
		return vlib.Excluded("c09-bucketbits-lt-tagbits")
	}
	b := encoding.NewUint64MapBuilder(c.BucketBits, c.TagBits)
	model := map[uint64][]encoding.Tagged{}
	first := map[uint64]encoding.Tagged{}
	for _, e := range c.Entries {
		b.Reserve(e.ID, encoding.Tag(e.Tag), len(e.Data))
		if _, ok := model[e.ID]; !ok {
			first[e.ID] = encoding.Tagged{Tag: encoding.Tag(e.Tag), Data: e.Data}
		}
		model[e.ID] = append(model[e.ID], encoding.Tagged{Tag: encoding.Tag(e.Tag), Data: e.Data})
	}
	b.FinishReservation()
	if b.IsEmpty() != (len(c.Entries) == 0) {
		return vlib.Fail("IsEmpty() = %v with %d entries", b.IsEmpty(), len(c.Entries))
	}
	var buf encoding.Buffer
	end, err := b.WriteHeader(&buf, encoding.Offset(c.Offset))
	if err != nil {
		return vlib.Fail("WriteHeader: %v", err)
	}
	for _, e := range c.Entries {
		if err := b.WriteItem(e.ID, encoding.Tag(e.Tag), e.Data, &buf); err != nil {
			return vlib.Fail("WriteItem: %v", err)
		}
	}
	data := buf.Bytes()
	if len(data) < int(end) {
		data = append(data, make([]byte, int(end)-len(data))...)
	}
	if int(end)-c.Offset != b.Length() {
		return vlib.Fail("WriteHeader end %d - start %d != Length() %d", end, c.Offset, b.Length())
	}
	m := encoding.NewUint64Map(data[c.Offset:])
	if m.Length() != b.Length() {
		return vlib.Fail("map Length %d, builder Length %d", m.Length(), b.Length())
	}
	multi := false
	ids := make([]uint64, 0, len(model))
	for id := range model {
		ids = append(ids, id)
	}
	sort.Slice(ids, func(i, j int) bool { return ids[i] < ids[j] })
	for _, id := range ids {
		want := model[id]
		got := m.FillTagged(id, nil)
		if fmt.Sprint(multiset(got)) != fmt.Sprint(multiset(want)) {
			return vlib.Fail("FillTagged(%d) = %v, wrote %v", id, multiset(got), multiset(want))
		}
		f, ok := m.FindFirst(id)
		if !ok || key(f) != key(first[id]) {
			return vlib.Fail("FindFirst(%d) = %v,%v; first entry written was %v", id, key(f), ok, key(first[id]))
		}
		for tag := 0; tag < 1<<c.TagBits; tag++ {
			var w []byte
			found := false
			for _, e := range want {
				if int(e.Tag) == tag {
					w, found = e.Data, true
					break
				}
			}
			g := m.FindFirstWithTag(id, encoding.Tag(tag))
			if (g != nil) != found || !bytes.Equal(g, w) {
				return vlib.Fail("FindFirstWithTag(%d,%d) = %x (nil=%v), first written with that tag %x (present=%v)", id, tag, g, g == nil, w, found)
			}
		}
		if len(want) > 1 {
			multi = true
		}
	}
	for _, id := range c.Absent {
		if _, ok := model[id]; ok {
			continue
		}
		if got := m.FillTagged(id, nil); len(got) != 0 {
			return vlib.Fail("FillTagged(absent %d) = %v", id, multiset(got))
		}
		if f, ok := m.FindFirst(id); ok {
			return vlib.Fail("FindFirst(absent %d) = %v", id, key(f))
		}
		if g := m.FindFirstWithTag(id, 0); g != nil {
			return vlib.Fail("FindFirstWithTag(absent %d, 0) = %x", id, g)
		}
	}
	// iteration
	seen := map[uint64]bool{}
	it := m.Begin()
	for it.Next() {
		id := it.ID()
		if seen[id] {
			return vlib.Fail("iterator visits ID %d twice", id)
		}
		seen[id] = true
		var got []encoding.Tagged
		for i := 0; i < it.Len(); i++ {
			got = append(got, encoding.Tagged{Tag: it.Tag(i), Data: it.Data(i)})
		}
		if fmt.Sprint(multiset(got)) != fmt.Sprint(multiset(model[id])) {
			return vlib.Fail("iterator at ID %d has %v, wrote %v", id, multiset(got), multiset(model[id]))
		}
	}
	if len(seen) != len(model) {
		return vlib.Fail("iterator visited %d IDs, wrote %d", len(seen), len(model))
	}
	var lock sync.Mutex
	seenEach := map[uint64]bool{}
	var eachErr error
	err = m.EachItem(func(id uint64, tagged []encoding.Tagged, goroutine int) error {
		lock.Lock()
		defer lock.Unlock()
		if seenEach[id] && eachErr == nil {
			eachErr = fmt.Errorf("EachItem visits ID %d twice", id)
		}
		seenEach[id] = true
		if fmt.Sprint(multiset(tagged)) != fmt.Sprint(multiset(model[id])) && eachErr == nil {
			eachErr = fmt.Errorf("EachItem at ID %d has %v, wrote %v", id, multiset(tagged), multiset(model[id]))
		}
		if (goroutine < 0 || goroutine >= c.Goroutines) && eachErr == nil {
			eachErr = fmt.Errorf("EachItem goroutine index %d with %d goroutines", goroutine, c.Goroutines)
		}
		return nil
	}, c.Goroutines)
	if err != nil {
		return vlib.Fail("EachItem: %v", err)
	}
	if eachErr != nil {
		return vlib.Outcome{Err: eachErr}
	}
	if len(seenEach) != len(model) {
		return vlib.Fail("EachItem visited %d IDs, wrote %d", len(seenEach), len(model))
	}
	out := vlib.Outcome{NonTrivial: multi || highLoss}
	if multi {
		out.Classes = append(out.Classes, "id-with-several-entries")
	}
	if highLoss {
		out.Classes = append(out.Classes, "id-bits-above-64-tagbits")
	}
	if c.BucketBits < c.TagBits {
		out.Classes = append(out.Classes, "bucketbits<tagbits")
	}
	return out
}

func TestPropMap(t *testing.T) {
	vlib.Run(t, vlib.Config{ID: "C09", Name: "uint64map",
		Rule: "maps with bucketBits 0-10, tagBits 0-4, 0-30 entries (IDs from the boundary mixture, repeated IDs, IDs colliding in a bucket but differing in one high bit), 0-6 absent probe IDs (near misses), 1-4 goroutines; FillTagged/FindFirst/FindFirstWithTag/Begin-Next/EachItem compared with a multiset model; non-trivial = an ID with >= 2 entries or an ID with bits set above 64-tagBits"},
		genMap, checkMap)
}
