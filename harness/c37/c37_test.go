// C37: every feature in a built or edited world is valid.
package c37

import (
	"fmt"
	"math"
	"sort"
	"testing"

	"diagonal.works/b6"
	"diagonal.works/b6/ingest"
	"github.com/golang/geo/s2"
	"pgregory.net/rapid"
	"verif/vlib"
	"verif/wm"
)

type Bad struct {
	Kind string `json:"kind"` // one-point-path, missing-point, clockwise, bowtie, area-missing-path, area-open-path, two-point-loop, open-closed (edit), shorten (edit)
	Pick int    `json:"pick"`
}

type Case struct {
	Set   wm.Set `json:"set"`
	World string `json:"world"` // basic-drop, basic-reject, compact, mutable, overlay
	Bad   []Bad  `json:"bad"`
	Cores int    `json:"cores"`
}

var kinds = []string{"one-point-path", "missing-point", "clockwise", "bowtie", "area-missing-path", "area-open-path", "area-open-llpath", "two-point-loop", "open-closed", "shorten"}

func gen(t *rapid.T) Case {
	c := Case{
		Set: wm.GenSet(t, wm.GenConfig{MaxPoints: 4, MaxPaths: 3, MaxLoops: 2, MaxAreas: 2, MaxRelations: 1,
			Namespaces: []string{string(b6.NamespaceOSMNode), string(b6.NamespaceOSMWay), string(b6.NamespaceOSMRelation)}}),
		World: rapid.SampledFrom([]string{"basic-drop", "basic-drop", "basic-reject", "compact", "mutable", "mutable", "overlay", "overlay"}).Draw(t, "world"),
		Cores: rapid.SampledFrom([]int{1, 1, 2, 4}).Draw(t, "cores"),
	}
	n := rapid.IntRange(1, 4).Draw(t, "nbad")
	for i := 0; i < n; i++ {
		c.Bad = append(c.Bad, Bad{Kind: rapid.SampledFrom(kinds).Draw(t, "kind"), Pick: rapid.IntRange(0, 20).Draw(t, "pick")})
	}
	return c
}

func isClosed(f wm.FeatureS) bool {
	n := len(f.Path)
	return n > 2 && f.Path[0].Ref != nil && f.Path[n-1].Ref != nil && *f.Path[0].Ref == *f.Path[n-1].Ref
}

// invalid builds the invalid feature for b, as a new feature (replace=false)
// or a replacement of an existing one; ok=false when the set has no candidate.
// llPath returns a valid open path of inline lat/lngs (support for "area-open-llpath").
func llPath(serial int) wm.FeatureS {
	base := int32(serial * 40000)
	pts := []wm.LL{{Lat: 515800000 + base, Lng: -1400000}, {Lat: 515810000 + base, Lng: -1390000}, {Lat: 515820000 + base, Lng: -1400000}, {Lat: 515810000 + base, Lng: -1410000}}
	f := wm.FeatureS{ID: wm.FID{T: 1, NS: string(b6.NamespaceOSMWay), V: uint64(6000 + serial)}}
	for i := range pts {
		f.Path = append(f.Path, wm.PathEl{LL: &pts[i]})
	}
	return f
}

func invalid(b Bad, set []wm.FeatureS, serial int) (spec wm.FeatureS, replace bool, ok bool) {
	var points, open, closed []wm.FeatureS
	for _, f := range set {
		switch f.ID.ID().Type {
		case b6.FeatureTypePoint:
			points = append(points, f)
		case b6.FeatureTypePath:
			if isClosed(f) {
				closed = append(closed, f)
			} else {
				open = append(open, f)
			}
		}
	}
	newPath := wm.FID{T: 1, NS: string(b6.NamespaceOSMWay), V: uint64(5000 + serial)}
	newArea := wm.FID{T: 2, NS: string(b6.NamespaceOSMWay), V: uint64(5000 + serial)}
	absentPoint := wm.FID{T: 0, NS: string(b6.NamespaceOSMNode), V: 777777}
	absentPath := wm.FID{T: 1, NS: string(b6.NamespaceOSMWay), V: 777777}
	ref := func(f wm.FeatureS) wm.PathEl { id := f.ID; return wm.PathEl{Ref: &id} }
	pick := func(fs []wm.FeatureS) wm.FeatureS { return fs[b.Pick%len(fs)].Clone() }
	switch b.Kind {
	case "one-point-path":
		if len(points) > 0 {
			return wm.FeatureS{ID: newPath, Path: []wm.PathEl{ref(pick(points))}}, false, true
		}
	case "missing-point":
		if len(points) > 0 {
			return wm.FeatureS{ID: newPath, Path: []wm.PathEl{ref(pick(points)), {Ref: &absentPoint}}}, false, true
		}
	case "clockwise":
		if len(closed) > 0 {
			f := pick(closed)
			f.ID = newPath
			for a, z := 0, len(f.Path)-1; a < z; a, z = a+1, z-1 {
				f.Path[a], f.Path[z] = f.Path[z], f.Path[a]
			}
			return f, false, true
		}
	case "bowtie":
		for i := range closed {
			f := closed[(b.Pick+i)%len(closed)].Clone()
			if len(f.Path) >= 5 { // at least 4 distinct vertices: swapping two neighbours self-intersects a convex loop
				f.ID = newPath
				f.Path[1], f.Path[2] = f.Path[2], f.Path[1]
				return f, false, true
			}
		}
	case "area-missing-path":
		return wm.FeatureS{ID: newArea, Polys: []wm.PolyS{{Paths: []wm.FID{absentPath}}}}, false, true
	case "area-open-path":
		if len(open) > 0 {
			return wm.FeatureS{ID: newArea, Polys: []wm.PolyS{{Paths: []wm.FID{pick(open).ID}}}}, false, true
		}
	case "area-open-llpath":
		return wm.FeatureS{ID: newArea, Polys: []wm.PolyS{{Paths: []wm.FID{llPath(serial).ID}}}}, false, true
	case "two-point-loop":
		if len(points) > 1 {
			a, z := points[b.Pick%len(points)], points[(b.Pick+1)%len(points)]
			loop := wm.FeatureS{ID: newPath, Path: []wm.PathEl{ref(a), ref(z), ref(a)}}
			return loop, false, true
		}
	case "open-closed":
		if len(closed) > 0 {
			f := pick(closed)
			f.Path = f.Path[:len(f.Path)-1]
			return f, true, true
		}
	case "shorten":
		if len(closed) > 0 {
			f := pick(closed)
			f.Path = []wm.PathEl{f.Path[0], f.Path[1], f.Path[0]}
			return f, true, true
		}
	}
	return wm.FeatureS{}, false, false
}

// validate re-checks every feature of the world against the rules of the
// property, independently of ingest.ValidateFeature.
func validate(w b6.World) error {
	var features []b6.Feature
	if err := w.EachFeature(func(f b6.Feature, _ int) error {
		features = append(features, f)
		return nil
	}, &b6.EachFeatureOptions{Goroutines: 1}); err != nil {
		return fmt.Errorf("EachFeature: %v", err)
	}
	sort.Slice(features, func(i, j int) bool { return features[i].FeatureID().Less(features[j].FeatureID()) })
	pathPoints := func(p b6.PhysicalFeature) (pts []s2.Point, closed bool, err error) {
		defer func() {
			if r := recover(); r != nil {
				err = fmt.Errorf("resolving its points panics: %v", r)
			}
		}()
		n := p.GeometryLen()
		for i := 0; i < n; i++ {
			if ref := p.Reference(i); ref != nil && ref.Source().IsValid() {
				if _, e := w.FindLocationByID(ref.Source()); e != nil {
					return nil, false, fmt.Errorf("point %d (%v) has no location", i, ref.Source())
				}
			}
			pt := p.PointAt(i)
			if pt.Norm() == 0 {
				return nil, false, fmt.Errorf("point %d resolves to no location", i)
			}
			pts = append(pts, pt)
		}
		first, last := p.Reference(0), p.Reference(n-1)
		closed = n > 1 && first != nil && last != nil && first.Source().IsValid() && first.Source() == last.Source()
		return pts, closed, nil
	}
	for _, f := range features {
		id := f.FeatureID()
		switch id.Type {
		case b6.FeatureTypePath:
			p, ok := f.(b6.PhysicalFeature)
			if !ok {
				return fmt.Errorf("%v is not a physical feature", id)
			}
			if p.GeometryLen() < 2 {
				return fmt.Errorf("path %v has %d points", id, p.GeometryLen())
			}
			pts, closed, err := pathPoints(p)
			if err != nil {
				return fmt.Errorf("path %v: %v", id, err)
			}
			if closed {
				loop := s2.LoopFromPoints(pts[:len(pts)-1])
				if err := loop.Validate(); err != nil {
					return fmt.Errorf("closed path %v is not a valid loop: %v", id, err)
				}
				if loop.Area() > 2*math.Pi {
					return fmt.Errorf("closed path %v is ordered clockwise", id)
				}
			}
		case b6.FeatureTypeArea:
			a, ok := f.(b6.AreaFeature)
			if !ok {
				return fmt.Errorf("%v is not an area feature", id)
			}
			for i := 0; i < a.Len(); i++ {
				var paths []b6.PhysicalFeature
				var perr error
				func() {
					defer func() {
						if r := recover(); r != nil {
							perr = fmt.Errorf("area %v polygon %d: resolving its paths panics: %v", id, i, r)
						}
					}()
					paths = a.Feature(i)
				}()
				if perr != nil {
					return perr
				}
				for _, p := range paths {
					if p == nil || !w.HasFeatureWithID(p.FeatureID()) {
						return fmt.Errorf("area %v polygon %d refers to a path that is not in the world", id, i)
					}
					if p.GeometryLen() < 3 {
						return fmt.Errorf("area %v polygon %d uses path %v with %d points", id, i, p.FeatureID(), p.GeometryLen())
					}
					_, closed, err := pathPoints(p)
					if err != nil {
						return fmt.Errorf("area %v polygon %d path %v: %v", id, i, p.FeatureID(), err)
					}
					if !closed {
						return fmt.Errorf("area %v polygon %d uses path %v which is not closed", id, i, p.FeatureID())
					}
				}
			}
		}
	}
	return nil
}

func check(c Case) vlib.Outcome {
	if len(c.Set.Features) == 0 || c.Cores < 1 || c.Cores > 16 {
		return vlib.Outcome{Skip: true}
	}
	var newBad, replacements, support []wm.FeatureS
	out := vlib.Outcome{Classes: []string{"world=" + c.World}}
	for i, b := range c.Bad {
		spec, replace, ok := invalid(b, c.Set.Features, i)
		if !ok {
			continue
		}
		out.Classes = append(out.Classes, "bad="+b.Kind)
		if b.Kind == "area-open-llpath" {
			support = append(support, llPath(i)) // a valid open path of lat/lngs; the area over it is the invalid feature
		}
		if replace {
			replacements = append(replacements, spec)
		} else {
			newBad = append(newBad, spec)
		}
	}
	if len(newBad)+len(replacements) == 0 {
		return vlib.Outcome{Skip: true, Classes: []string{"skipped:no-candidate"}}
	}
	var w b6.World
	switch c.World {
	case "basic-drop", "basic-reject", "compact":
		// sources: the valid set plus new invalid features; replacements substitute the original
		all := map[b6.FeatureID]wm.FeatureS{}
		var order []b6.FeatureID
		for _, f := range append(append(append(append([]wm.FeatureS{}, c.Set.Features...), support...), newBad...), replacements...) {
			if _, ok := all[f.ID.ID()]; !ok {
				order = append(order, f.ID.ID())
			}
			all[f.ID.ID()] = f
		}
		var fs []wm.FeatureS
		for _, id := range order {
			fs = append(fs, all[id])
		}
		var err error
		switch c.World {
		case "basic-drop":
			w, err = wm.BuildBasic(fs, c.Cores, false)
			if err != nil {
				return vlib.Fail("building in drop mode returned an error: %v", err)
			}
		case "basic-reject":
			w, err = wm.BuildBasic(fs, c.Cores, true)
			if err != nil {
				return vlib.Outcome{NonTrivial: true, Classes: append(out.Classes, "rejected")}
			}
		case "compact":
			w, err = wm.BuildCompact(fs, c.Cores)
			if err != nil {
				return vlib.Outcome{NonTrivial: true, Classes: append(out.Classes, "rejected")}
			}
		}
	case "mutable", "overlay":
		var m ingest.MutableWorld
		if c.World == "mutable" {
			mw, err := wm.BuildMutable(c.Set.Features)
			if err != nil {
				return vlib.Outcome{Skip: true, Classes: []string{"skipped:set-not-valid"}}
			}
			m = mw
		} else {
			base, err := wm.BuildBasic(c.Set.Features, 1, true)
			if err != nil {
				return vlib.Outcome{Skip: true, Classes: []string{"skipped:set-not-valid"}}
			}
			m = ingest.NewMutableOverlayWorld(base)
		}
		for _, f := range support {
			if err := m.AddFeature(wm.ToIngest(f)); err != nil {
				return vlib.Fail("adding a valid open lat/lng path failed: %v", err)
			}
		}
		for _, f := range append(newBad, replacements...) {
			if err := m.AddFeature(wm.ToIngest(f)); err == nil {
				out.Classes = append(out.Classes, "accepted")
			}
		}
		w = m
	default:
		return vlib.Outcome{Skip: true}
	}
	if err := validate(w); err != nil {
		return vlib.Fail("%s world built/edited with invalid features %v contains an invalid feature: %v", c.World, out.Classes, err)
	}
	out.NonTrivial = true
	return out
}

func TestProp(t *testing.T) {
	vlib.Run(t, vlib.Config{ID: "C37", Name: "validity", CaseTimeout: 120e9,
		Rule: "a generated valid set plus 1-4 invalid features or invalidating replacements (path of one point, path over a missing point, clockwise closed path, self-intersecting closed path, area over a missing path, area over an open path, two-point loop, closed path under an area opened or shortened); given to the basic builder in drop mode and in reject mode (1-4 cores), to the compact builder, or added one by one to a BasicMutableWorld / MutableOverlayWorld over a valid basic base; oracle: every feature enumerated from the resulting world is re-validated by rules written in the harness (>= 2 points all with locations, closed paths valid counter-clockwise loops, areas only over existing closed paths of >= 3 points); non-trivial = a world was produced or the build was rejected with at least one invalid input"},
		gen, check)
}
