// C20: printed shell expressions parse back to the same expression.
package c20

import (
	"fmt"
	"math"
	"strings"
	"testing"

	"diagonal.works/b6"
	"diagonal.works/b6/api"
	"github.com/golang/geo/s2"
	"pgregory.net/rapid"
	"verif/vlib"
	"verif/wm"
)

type QS struct {
	Kind  string `json:"kind"` // keyed tagged and or
	Key   string `json:"key,omitempty"`
	Value string `json:"value,omitempty"`
	A     *QS    `json:"a,omitempty"`
	B     *QS    `json:"b,omitempty"`
}

// ExprS is an expression in the parser's own normal form: a call's function is
// a symbol, a pipeline is a pipelined call of its right hand side with the left
// as the only argument, and a bare symbol in call position is a call without
// arguments.
type ExprS struct {
	Kind   string   `json:"kind"` // call pipe lambda sym str int float point id tag query
	Sym    string   `json:"sym,omitempty"`
	Args   []ExprS  `json:"args,omitempty"`
	LHS    *ExprS   `json:"lhs,omitempty"`
	RHS    *ExprS   `json:"rhs,omitempty"`
	Params []string `json:"params,omitempty"`
	Body   *ExprS   `json:"body,omitempty"`
	Str    string   `json:"str,omitempty"`
	Int    int64    `json:"int,omitempty,string"`
	F100   int64    `json:"f100,omitempty"` // float literal, in hundredths
	LatE6  int64    `json:"lat_e6,omitempty"`
	LngE6  int64    `json:"lng_e6,omitempty"`
	ID     *wm.FID  `json:"id,omitempty"`
	Key    string   `json:"key,omitempty"`
	Value  string   `json:"value,omitempty"`
	Query  *QS      `json:"query,omitempty"`
}

type Case struct {
	E      ExprS `json:"e"`
	Spaces []int `json:"spaces"` // indices into the whitespace pool, used in turn
}

var whitespace = []string{" ", "  ", "\t", "\n", " \n  ", "\r\n", "\f", "\v", " ", " ", "\u0085 "}

var symbolPool = []string{"find", "add", "x", "y", "f", "g", "to-geojson", "a:b", "snake_case", "X1", "map", "pair", "collection", "and"}
var keyPool = []string{"#highway", "#building", "name", "@wikidata", "addr:street", "#a_b", "maxspeed"}
var valuePool = []string{"primary", "yes", "a-b", "a:b", "Camden_Town", "v2", "2", "30 mph", "", "-1", "_x", "é", "a\"b", "a\\b", "a=b", "1st"}
var stringPool = []string{"", "a", "hello world", "51.5,-0.1", "/n/1", "-> {", "é日本", "tab\there", "a\"b", "back\\slash", "new\nline", "'", "%d"}

func genSymbol(t *rapid.T) string {
	if rapid.IntRange(0, 4).Draw(t, "anysym") == 0 {
		return rapid.StringMatching(`[a-zA-Z][a-zA-Z0-9:_-]{0,6}`).Draw(t, "sym")
	}
	return rapid.SampledFrom(symbolPool).Draw(t, "sym")
}

func genID(t *rapid.T) wm.FID {
	v := rapid.SampledFrom([]uint64{0, 1, 42, 3501612811, 1 << 32, 1<<63 - 1, 1 << 63, math.MaxUint64}).Draw(t, "idv")
	switch rapid.IntRange(0, 7).Draw(t, "idkind") {
	case 0:
		return wm.FID{T: 0, NS: string(b6.NamespaceOSMNode), V: v}
	case 1:
		return wm.FID{T: 1, NS: string(b6.NamespaceOSMWay), V: v}
	case 2:
		return wm.FID{T: 2, NS: string(b6.NamespaceOSMWay), V: v}
	case 3:
		return wm.FID{T: 3, NS: string(b6.NamespaceOSMRelation), V: v}
	case 4:
		return wm.FID{T: 0, NS: string(b6.NamespaceGBUPRN), V: v}
	case 5: // a namespace with an alias for another type
		return wm.FID{T: rapid.SampledFrom([]int{0, 3, 4}).Draw(t, "idtype"), NS: string(b6.NamespaceOSMWay), V: v}
	}
	return wm.FID{T: rapid.IntRange(0, 4).Draw(t, "idtype"), NS: rapid.SampledFrom([]string{"diagonal.works/test", "example.com/a_b/c-d", "x"}).Draw(t, "ns"), V: v}
}

func genQuery(t *rapid.T, depth int) QS {
	k := rapid.IntRange(0, 5).Draw(t, "qkind")
	switch {
	case depth > 0 && k >= 4:
		q := QS{Kind: rapid.SampledFrom([]string{"and", "or"}).Draw(t, "op")}
		a, b := genQuery(t, 0), genQuery(t, depth-1)
		if rapid.IntRange(0, 5).Draw(t, "leftcomposite") == 0 {
			a = genQuery(t, depth-1) // prints without the brackets that group it
		}
		q.A, q.B = &a, &b
		return q
	case k < 2:
		return QS{Kind: "keyed", Key: rapid.SampledFrom(keyPool).Draw(t, "key")}
	}
	return QS{Kind: "tagged", Key: rapid.SampledFrom(keyPool).Draw(t, "key"), Value: rapid.SampledFrom(valuePool).Draw(t, "value")}
}

func genLiteral(t *rapid.T) ExprS {
	switch rapid.IntRange(0, 7).Draw(t, "literal") {
	case 0:
		return ExprS{Kind: "str", Str: rapid.OneOf(rapid.SampledFrom(stringPool), rapid.StringMatching(`[ -~]{0,8}`)).Draw(t, "str")}
	case 1:
		return ExprS{Kind: "int", Int: rapid.OneOf(rapid.Int64Range(-1000, 1000), rapid.SampledFrom([]int64{0, math.MaxInt64, math.MinInt64, 1 << 32})).Draw(t, "int")}
	case 2:
		return ExprS{Kind: "float", F100: rapid.OneOf(rapid.Int64Range(-100000, 100000), rapid.SampledFrom([]int64{0, 100, -100, 50, 1, -1, 1e15})).Draw(t, "f100")}
	case 3:
		lat := rapid.OneOf(rapid.Int64Range(-90000000, 90000000), rapid.SampledFrom([]int64{51000000, 0, -34000000, 90000000, 51500000, 1, -1})).Draw(t, "lat")
		lng := rapid.OneOf(rapid.Int64Range(-180000000, 180000000), rapid.SampledFrom([]int64{-1000000, 0, 151000000, 180000000, -100000, 1, -1})).Draw(t, "lng")
		return ExprS{Kind: "point", LatE6: lat, LngE6: lng}
	case 4:
		id := genID(t)
		return ExprS{Kind: "id", ID: &id}
	case 5:
		return ExprS{Kind: "tag", Key: rapid.SampledFrom(keyPool).Draw(t, "key"), Value: rapid.SampledFrom(valuePool).Draw(t, "value")}
	case 6:
		q := genQuery(t, 2)
		return ExprS{Kind: "query", Query: &q}
	}
	return ExprS{Kind: "int", Int: int64(rapid.IntRange(0, 9).Draw(t, "digit"))}
}

// genTop generates anything a pipeline can be: a call, a pipeline, a literal or a lambda.
func genTop(t *rapid.T, depth int) ExprS {
	k := rapid.IntRange(0, 9).Draw(t, "top")
	switch {
	case depth > 0 && k < 2:
		lhs := genTop(t, depth-1)
		rhs := genCallForm(t, depth-1)
		if rapid.IntRange(0, 9).Draw(t, "rhspipe") == 0 {
			// a parenthesised pipeline on the right: x | (a | b)
			l2, r2 := genTop(t, 0), genCallForm(t, 0)
			rhs = ExprS{Kind: "pipe", LHS: &l2, RHS: &r2}
		}
		return ExprS{Kind: "pipe", LHS: &lhs, RHS: &rhs}
	case depth > 0 && k < 4:
		body := genTop(t, depth-1)
		e := ExprS{Kind: "lambda", Body: &body}
		for i, n := 0, rapid.IntRange(0, 3).Draw(t, "nparams"); i < n; i++ {
			e.Params = append(e.Params, genSymbol(t))
		}
		return e
	case k < 5:
		return genLiteral(t)
	}
	return genCall(t, depth)
}

// genCallForm generates what can stand to the right of a pipe: a call, a literal or a lambda.
func genCallForm(t *rapid.T, depth int) ExprS {
	switch rapid.IntRange(0, 5).Draw(t, "callform") {
	case 0:
		return genLiteral(t)
	case 1:
		if depth > 0 {
			body := genTop(t, depth-1)
			return ExprS{Kind: "lambda", Body: &body, Params: []string{genSymbol(t)}}
		}
	}
	return genCall(t, depth)
}

func genCall(t *rapid.T, depth int) ExprS {
	e := ExprS{Kind: "call", Sym: genSymbol(t)}
	for i, n := 0, rapid.IntRange(0, 3).Draw(t, "nargs"); i < n; i++ {
		k := rapid.IntRange(0, 9).Draw(t, "arg")
		switch {
		case k < 2:
			e.Args = append(e.Args, ExprS{Kind: "sym", Sym: genSymbol(t)})
		case depth > 0 && k < 6:
			a := genTop(t, depth-1)
			e.Args = append(e.Args, a)
		default:
			e.Args = append(e.Args, genLiteral(t))
		}
	}
	return e
}

func gen(t *rapid.T) Case {
	c := Case{E: genTop(t, 3)}
	c.Spaces = rapid.SliceOfN(rapid.IntRange(0, len(whitespace)-1), 0, 12).Draw(t, "spaces")
	if rapid.Bool().Draw(t, "plainspaces") {
		c.Spaces = nil
	}
	return c
}

// ---------------------------------------------------------------------------

func validSymbol(s string) bool {
	if s == "" || !((s[0] >= 'a' && s[0] <= 'z') || (s[0] >= 'A' && s[0] <= 'Z')) {
		return false
	}
	for _, r := range s {
		if !((r >= 'a' && r <= 'z') || (r >= 'A' && r <= 'Z') || (r >= '0' && r <= '9') || r == '-' || r == ':' || r == '_') {
			return false
		}
	}
	return !strings.HasSuffix(s, "-") // "x-" before "->" or ">" isn't the subject here
}

func validKey(s string) bool {
	if strings.HasPrefix(s, "#") || strings.HasPrefix(s, "@") {
		s = s[1:]
	}
	return validSymbol(s)
}

func (q QS) build() (b6.Query, bool) {
	switch q.Kind {
	case "keyed":
		return b6.Keyed{Key: q.Key}, validKey(q.Key)
	case "tagged":
		return b6.Tagged{Key: q.Key, Value: b6.NewStringExpression(q.Value)}, validKey(q.Key)
	case "and", "or":
		if q.A == nil || q.B == nil {
			return nil, false
		}
		a, ok1 := q.A.build()
		b, ok2 := q.B.build()
		if q.Kind == "and" {
			return b6.Intersection{a, b}, ok1 && ok2
		}
		return b6.Union{a, b}, ok1 && ok2
	}
	return nil, false
}

func (e ExprS) build() (b6.Expression, bool) {
	switch e.Kind {
	case "sym":
		return b6.NewSymbolExpression(e.Sym), validSymbol(e.Sym)
	case "call":
		c := b6.CallExpression{Function: b6.NewSymbolExpression(e.Sym), Args: []b6.Expression{}}
		ok := validSymbol(e.Sym)
		for _, a := range e.Args {
			arg, ok1 := a.build()
			ok = ok && ok1
			c.Args = append(c.Args, arg)
		}
		return b6.Expression{AnyExpression: c}, ok
	case "pipe":
		if e.LHS == nil || e.RHS == nil || e.RHS.Kind == "sym" || e.LHS.Kind == "sym" {
			return b6.Expression{}, false
		}
		l, ok1 := e.LHS.build()
		r, ok2 := e.RHS.build()
		return b6.Expression{AnyExpression: b6.CallExpression{Function: r, Args: []b6.Expression{l}, Pipelined: true}}, ok1 && ok2
	case "lambda":
		if e.Body == nil || e.Body.Kind == "sym" {
			return b6.Expression{}, false
		}
		body, ok := e.Body.build()
		for _, p := range e.Params {
			ok = ok && validSymbol(p)
		}
		return b6.Expression{AnyExpression: b6.LambdaExpression{Args: append([]string{}, e.Params...), Expression: body}}, ok
	case "str":
		return b6.NewStringExpression(e.Str), true
	case "int":
		return b6.NewIntExpression(int(e.Int)), true
	case "float":
		return b6.NewFloatExpression(float64(e.F100) / 100), e.F100 > -1e16 && e.F100 < 1e16
	case "point":
		return b6.NewPointExpressionFromLatLng(s2.LatLngFromDegrees(float64(e.LatE6)/1e6, float64(e.LngE6)/1e6)), e.LatE6 >= -90000000 && e.LatE6 <= 90000000 && e.LngE6 >= -180000000 && e.LngE6 <= 180000000
	case "id":
		if e.ID == nil {
			return b6.Expression{}, false
		}
		for _, r := range e.ID.NS {
			if !((r >= 'a' && r <= 'z') || (r >= 'A' && r <= 'Z') || (r >= '0' && r <= '9') || r == '.' || r == '-' || r == '/' || r == '_') {
				return b6.Expression{}, false
			}
		}
		return b6.NewFeatureIDExpression(e.ID.ID()), e.ID.NS != "" && !strings.HasPrefix(e.ID.NS, "/") && !strings.HasSuffix(e.ID.NS, "/")
	case "tag":
		return b6.Expression{AnyExpression: b6.TagExpression{Key: e.Key, Value: b6.NewStringExpression(e.Value)}}, validKey(e.Key)
	case "query":
		if e.Query == nil {
			return b6.Expression{}, false
		}
		q, ok := e.Query.build()
		return b6.NewQueryExpression(q), ok
	}
	return b6.Expression{}, false
}

func matchQuery(path string, want QS, got b6.Query) error {
	switch want.Kind {
	case "keyed":
		if q, ok := got.(b6.Keyed); ok && q.Key == want.Key {
			return nil
		}
	case "tagged":
		if q, ok := got.(b6.Tagged); ok && q.Key == want.Key && q.Value.AnyExpression == b6.StringExpression(want.Value) {
			return nil
		}
	case "and":
		if q, ok := got.(b6.Intersection); ok && len(q) == 2 {
			if err := matchQuery(path+"/and.a", *want.A, q[0]); err != nil {
				return err
			}
			return matchQuery(path+"/and.b", *want.B, q[1])
		}
	case "or":
		if q, ok := got.(b6.Union); ok && len(q) == 2 {
			if err := matchQuery(path+"/or.a", *want.A, q[0]); err != nil {
				return err
			}
			return matchQuery(path+"/or.b", *want.B, q[1])
		}
	}
	return fmt.Errorf("%s: query %+v parsed as %T %v", path, want, got, got)
}

func match(path string, want ExprS, got b6.Expression) error {
	bad := func() error {
		s := "nothing"
		if got.AnyExpression != nil {
			s = fmt.Sprintf("%T %v", got.AnyExpression, got.AnyExpression)
		}
		return fmt.Errorf("%s: expected %s, parsed %s", path, describe(want), s)
	}
	if got.AnyExpression == nil {
		return bad()
	}
	switch want.Kind {
	case "sym":
		if g, ok := got.AnyExpression.(b6.SymbolExpression); !ok || string(g) != want.Sym {
			return bad()
		}
	case "call":
		g, ok := got.AnyExpression.(b6.CallExpression)
		if !ok || g.Pipelined || len(g.Args) != len(want.Args) {
			return bad()
		}
		if f, ok := g.Function.AnyExpression.(b6.SymbolExpression); !ok || string(f) != want.Sym {
			return bad()
		}
		for i := range want.Args {
			if err := match(fmt.Sprintf("%s/%s[%d]", path, want.Sym, i), want.Args[i], g.Args[i]); err != nil {
				return err
			}
		}
	case "pipe":
		g, ok := got.AnyExpression.(b6.CallExpression)
		if !ok || !g.Pipelined || len(g.Args) != 1 {
			return bad()
		}
		if err := match(path+"/lhs", *want.LHS, g.Args[0]); err != nil {
			return err
		}
		return match(path+"/rhs", *want.RHS, g.Function)
	case "lambda":
		g, ok := got.AnyExpression.(b6.LambdaExpression)
		if !ok || strings.Join(g.Args, ",") != strings.Join(want.Params, ",") {
			return bad()
		}
		return match(path+"/body", *want.Body, g.Expression)
	case "str":
		if g, ok := got.AnyExpression.(b6.StringExpression); !ok || string(g) != want.Str {
			return bad()
		}
	case "int":
		if g, ok := got.AnyExpression.(b6.IntExpression); !ok || int64(g) != want.Int {
			return bad()
		}
	case "float":
		if g, ok := got.AnyExpression.(b6.FloatExpression); !ok || math.Abs(float64(g)-float64(want.F100)/100) > 1e-9*math.Max(1, math.Abs(float64(want.F100)/100)) {
			return bad()
		}
	case "point":
		g, ok := got.AnyExpression.(b6.PointExpression)
		if !ok || math.Abs(s2.LatLng(g).Lat.Degrees()-float64(want.LatE6)/1e6) > 1e-9 || math.Abs(s2.LatLng(g).Lng.Degrees()-float64(want.LngE6)/1e6) > 1e-9 {
			return bad()
		}
	case "id":
		if g, ok := got.AnyExpression.(b6.FeatureIDExpression); !ok || b6.FeatureID(g) != want.ID.ID() {
			return bad()
		}
	case "tag":
		if g, ok := got.AnyExpression.(b6.TagExpression); !ok || g.Key != want.Key || g.Value.AnyExpression != b6.StringExpression(want.Value) {
			return bad()
		}
	case "query":
		g, ok := got.AnyExpression.(b6.QueryExpression)
		if !ok {
			return bad()
		}
		return matchQuery(path, *want.Query, g.Query)
	}
	return nil
}

func describe(e ExprS) string {
	switch e.Kind {
	case "sym", "call":
		return fmt.Sprintf("%s %s with %d arguments", e.Kind, e.Sym, len(e.Args))
	case "str":
		return fmt.Sprintf("string %q", e.Str)
	case "int":
		return fmt.Sprintf("int %d", e.Int)
	case "float":
		return fmt.Sprintf("float %v", float64(e.F100)/100)
	case "point":
		return fmt.Sprintf("point %v,%v", float64(e.LatE6)/1e6, float64(e.LngE6)/1e6)
	case "id":
		return fmt.Sprintf("id %s", e.ID.ID())
	case "tag":
		return fmt.Sprintf("tag %q=%q", e.Key, e.Value)
	case "query":
		return fmt.Sprintf("query %+v", *e.Query)
	case "lambda":
		return fmt.Sprintf("lambda of %v", e.Params)
	}
	return e.Kind
}

// respace replaces each run of spaces outside string literals with whitespace
// from the pool, and adds whitespace inside brackets.
func respace(text string, spaces []int) string {
	if len(spaces) == 0 {
		return text
	}
	var b strings.Builder
	next := 0
	ws := func() string {
		s := whitespace[spaces[next%len(spaces)]%len(whitespace)]
		next++
		return s
	}
	for i := 0; i < len(text); i++ {
		c := text[i]
		switch {
		case c == '"':
			// a string ends at the next quote that isn't escaped
			j := i + 1
			for j < len(text) && text[j] != '"' {
				if text[j] == '\\' {
					j++
				}
				j++
			}
			if j >= len(text) {
				b.WriteString(text[i:])
				return b.String()
			}
			b.WriteString(text[i : j+1])
			i = j
		case c == ' ':
			for i+1 < len(text) && text[i+1] == ' ' {
				i++
			}
			b.WriteString(ws())
		case c == '(' || c == '{' || c == '[':
			b.WriteByte(c)
			if next%3 == 0 {
				b.WriteString(ws())
			}
		case c == ')' || c == '}' || c == ']':
			if next%3 == 1 {
				b.WriteString(ws())
			}
			b.WriteByte(c)
		default:
			b.WriteByte(c)
		}
	}
	return b.String() + ws()
}

type features struct {
	quoteInString, oddTagValue, leftCompositeQuery, pipeOnRight, point bool
	nodes                                                              int
}

func (f *features) query(q QS) {
	if q.Kind == "tagged" {
		f.tagValue(q.Value)
	}
	if q.A != nil {
		if q.A.Kind == "and" || q.A.Kind == "or" {
			f.leftCompositeQuery = true
		}
		f.query(*q.A)
		f.query(*q.B)
	}
}

func (f *features) tagValue(v string) {
	if !validSymbol(v) {
		f.oddTagValue = true
	}
	if strings.ContainsAny(v, "\"\\") {
		f.quoteInString = true
	}
}

func (f *features) walk(e ExprS) {
	f.nodes++
	switch e.Kind {
	case "str":
		// %q also escapes control and non-printable characters
		if fmt.Sprintf("%q", e.Str) != "\""+e.Str+"\"" {
			f.quoteInString = true
		}
	case "tag":
		f.tagValue(e.Value)
	case "query":
		f.query(*e.Query)
	case "point":
		f.point = true
	case "pipe":
		if e.RHS.Kind == "pipe" {
			f.pipeOnRight = true
		}
		f.walk(*e.LHS)
		f.walk(*e.RHS)
	case "lambda":
		f.walk(*e.Body)
	}
	for _, a := range e.Args {
		f.walk(a)
	}
}

// spans checks that every node with a span lies within its parent's span, and
// that the text of the span parses back to the node.
func spans(text string, want ExprS, got b6.Expression, parent *b6.Expression, path string) error {
	if got.Begin < 0 || got.End > len(text) || got.End < got.Begin {
		return fmt.Errorf("%s: span %d-%d isn't a range of the %d byte text", path, got.Begin, got.End, len(text))
	}
	if got.End == got.Begin && (got.Begin != 0 || want.Kind != "str" && want.Kind != "tag") {
		return fmt.Errorf("%s: %s has the empty span %d-%d", path, describe(want), got.Begin, got.End)
	}
	if parent != nil && (got.Begin < parent.Begin || got.End > parent.End) {
		return fmt.Errorf("%s: span %d-%d (%q) isn't within its parent's span %d-%d (%q)", path, got.Begin, got.End, text[got.Begin:got.End], parent.Begin, parent.End, text[parent.Begin:min(parent.End, len(text))])
	}
	// Brackets and arrows are punctuation that belongs to no node, so the text of
	// a composite node's span needn't parse by itself: the span of "{x -> f x}" is
	// "x -> f x", and that of "g (f x)" is "g (f x". Composite nodes are
	// checked through the containment of their children; the text of a leaf
	// (a literal, a symbol, a call without arguments) must parse back to it.
	if leaf := want.Kind != "pipe" && want.Kind != "lambda" && !(want.Kind == "call" && len(want.Args) > 0) && !(want.Kind == "query" && want.Query.A != nil); leaf {
		part := text[got.Begin:got.End]
		if want.Kind == "query" {
			part = "[" + part + "]"
		}
		wantPart := want
		if want.Kind == "sym" {
			wantPart = ExprS{Kind: "call", Sym: want.Sym}
		}
		reparsed, err := api.ParseExpression(part)
		if err != nil {
			return fmt.Errorf("%s: the text of span %d-%d, %q, doesn't parse: %v", path, got.Begin, got.End, part, err)
		}
		if err := match(path, wantPart, reparsed); err != nil {
			return fmt.Errorf("%s: the text of span %d-%d, %q, isn't the node's: %v", path, got.Begin, got.End, part, err)
		}
	}
	switch want.Kind {
	case "call":
		g := got.AnyExpression.(b6.CallExpression)
		if err := spans(text, ExprS{Kind: "sym", Sym: want.Sym}, g.Function, &got, path+"/fn"); err != nil {
			return err
		}
		for i := range want.Args {
			if err := spans(text, want.Args[i], g.Args[i], &got, fmt.Sprintf("%s/%s[%d]", path, want.Sym, i)); err != nil {
				return err
			}
		}
	case "pipe":
		g := got.AnyExpression.(b6.CallExpression)
		if err := spans(text, *want.LHS, g.Args[0], &got, path+"/lhs"); err != nil {
			return err
		}
		return spans(text, *want.RHS, g.Function, &got, path+"/rhs")
	case "lambda":
		return spans(text, *want.Body, got.AnyExpression.(b6.LambdaExpression).Expression, &got, path+"/body")
	}
	return nil
}

func check(c Case) vlib.Outcome {
	e, ok := c.E.build()
	if !ok || c.E.Kind == "sym" {
		return vlib.Outcome{Skip: true, Classes: []string{"skipped:not-in-subset"}}
	}
	for _, s := range c.Spaces {
		if s < 0 {
			return vlib.Outcome{Skip: true}
		}
	}
	var f features
	f.walk(c.E)
	if f.nodes > 200 {
		return vlib.Outcome{Skip: true}
	}
	for sig, present := range map[string]bool{"c20-string-escapes": f.quoteInString, "c20-tag-value-not-symbol": f.oddTagValue, "c20-query-grouping": f.leftCompositeQuery, "c20-pipeline-on-right": f.pipeOnRight} {
		if present && vlib.Known(sig) {
			return vlib.Excluded(sig)
		}
	}
	printed, ok := api.UnparseExpression(e)
	if !ok {
		return vlib.Fail("UnparseExpression can't print %v", e)
	}
	text := respace(printed, c.Spaces)
	parsed, err := api.ParseExpression(text)
	if err != nil {
		return vlib.Fail("the printed expression %q (as %q) doesn't parse: %v", printed, text, err)
	}
	if err := match("", c.E, parsed); err != nil {
		return vlib.Fail("the printed expression %q (as %q) parses to a different expression: %v", printed, text, err)
	}
	// known finding: lat/lng literals get no span, which also truncates the span of what they end;
	// the spans of trees with a lat/lng literal aren't checked
	if !(f.point && vlib.Known("c20-latlng-span")) {
		if err := spans(text, c.E, parsed, nil, ""); err != nil {
			return vlib.Fail("positions after parsing %q: %v", text, err)
		}
	}
	out := vlib.Outcome{NonTrivial: f.nodes >= 3}
	for name, present := range map[string]bool{"string-needing-escapes": f.quoteInString, "tag-value-not-a-symbol": f.oddTagValue, "composite-left-query-operand": f.leftCompositeQuery, "pipeline-right-of-pipe": f.pipeOnRight, "lat-lng": f.point, "respaced": len(c.Spaces) > 0} {
		if present {
			out.Classes = append(out.Classes, name)
		}
	}
	return out
}

func TestProp(t *testing.T) {
	vlib.Run(t, vlib.Config{ID: "C20", Name: "print-parse", NoWAL: true,
		Rule: "expression trees in the parser's normal form to depth 3: calls of a symbol with 0-3 arguments (symbols, literals, lambdas, nested calls and pipelines), pipelines (incl. a parenthesised pipeline on the right), lambdas with 0-3 parameters, strings (escapes, unicode, shell syntax), ints incl. extremes, floats k/100, lat/lngs k/1e6 incl. whole degrees, feature IDs with and without aliases, tags and tag queries (and/or nesting, keys with #/@ prefixes, values that are not symbols); the text is UnparseExpression's with each space replaced by whitespace from a pool incl. CR, FF, VT, NBSP and other unicode spaces; oracle: ParseExpression(text) is structurally the generated tree, every node's span is a non-empty range within its parent's, and the text of the span parses back to the node; non-trivial = at least 3 nodes"},
		gen, check)
}
