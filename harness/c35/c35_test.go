// C35: concurrent readers and parallel builders are race-free.
// Built with -race: the race detector ends the process at the first report, and
// the driver attributes it to the case in the write-ahead record.
package c35

import (
	"fmt"
	"sort"
	"strings"
	"sync"
	"testing"

	"diagonal.works/b6"
	"diagonal.works/b6/ingest"
	"diagonal.works/b6/ingest/compact"
	"pgregory.net/rapid"
	"verif/vlib"
	"verif/wm"
)

type Case struct {
	Features   []wm.FeatureS `json:"features"`
	World      string        `json:"world"` // basic mutable overlay compact
	Goroutines int           `json:"goroutines"`
	Rounds     int           `json:"rounds"`
	Order      []int         `json:"order"` // each goroutine starts its round at a different operation
}

var nsA = []string{string(b6.NamespaceOSMNode), string(b6.NamespaceOSMWay), string(b6.NamespaceOSMRelation)}

func gen(t *rapid.T) Case {
	typed := [][]string{{nsA[0]}, {nsA[1]}, {nsA[1]}, {nsA[2]}}
	c := Case{
		Features:   wm.GenSet(t, wm.GenConfig{MaxPoints: 6, MaxPaths: 4, MaxLoops: 2, MaxAreas: 3, MaxRelations: 2, Namespaces: nsA, TypedNamespaces: typed, LatLngAreas: true}).Features,
		World:      rapid.SampledFrom([]string{"basic", "mutable", "overlay", "compact", "compact", "compact"}).Draw(t, "world"),
		Goroutines: rapid.IntRange(2, 8).Draw(t, "goroutines"),
		Rounds:     rapid.IntRange(1, 3).Draw(t, "rounds"),
	}
	for i := 0; i < c.Goroutines; i++ {
		c.Order = append(c.Order, rapid.IntRange(0, 50).Draw(t, "offset"))
	}
	return c
}

func build(c Case, data *[]byte) (b6.World, error) {
	switch c.World {
	case "basic":
		return wm.BuildBasic(c.Features, 1, true)
	case "mutable":
		return wm.BuildMutable(c.Features)
	case "overlay":
		fs := wm.SortForInsertion(c.Features)
		var base, rest []wm.FeatureS
		for _, f := range fs {
			if f.ID.T == 0 {
				base = append(base, f)
			} else {
				rest = append(rest, f)
			}
		}
		w, err := wm.BuildBasic(base, 1, true)
		if err != nil {
			return nil, err
		}
		o := ingest.NewMutableOverlayWorld(w)
		for _, f := range rest {
			if err := o.AddFeature(wm.ToIngest(f)); err != nil {
				return nil, err
			}
		}
		return o, nil
	case "compact":
		if *data == nil {
			var err error
			if *data, err = wm.BuildCompactData(c.Features, 1); err != nil {
				return nil, err
			}
		}
		// a fresh world over the same bytes: its feature cache starts cold
		return compact.NewWorldFromData(*data)
	}
	return nil, fmt.Errorf("unknown world %q", c.World)
}

type op struct {
	name string
	run  func(w b6.World) string
}

func ids(fs b6.Features) string {
	var out []string
	for fs.Next() {
		out = append(out, fs.FeatureID().String())
	}
	return strings.Join(out, " ")
}

func operations(c Case) []op {
	var ops []op
	for _, f := range c.Features {
		id := f.ID.ID()
		ops = append(ops, op{"feature " + id.String(), func(w b6.World) string { return wm.FeatureString(w.FindFeatureByID(id)) }})
		ops = append(ops, op{"has " + id.String(), func(w b6.World) string { return fmt.Sprint(w.HasFeatureWithID(id)) }})
		ops = append(ops, op{"relations " + id.String(), func(w b6.World) string {
			rs := w.FindRelationsByFeature(id)
			var out []string
			for rs.Next() {
				out = append(out, rs.FeatureID().String())
			}
			sort.Strings(out)
			return strings.Join(out, " ")
		}})
		switch id.Type {
		case b6.FeatureTypePoint:
			ops = append(ops, op{"location " + id.String(), func(w b6.World) string {
				ll, err := w.FindLocationByID(id)
				return fmt.Sprint(ll.Lat.E7(), ll.Lng.E7(), err)
			}})
			ops = append(ops, op{"traverse " + id.String(), func(w b6.World) string {
				ss := w.Traverse(id)
				var out []string
				for ss.Next() {
					s := ss.Segment()
					out = append(out, fmt.Sprintf("%s[%d..%d]", s.Feature.FeatureID(), s.First, s.Last))
				}
				sort.Strings(out)
				return strings.Join(out, " ")
			}})
			ops = append(ops, op{"areas " + id.String(), func(w b6.World) string {
				as := w.FindAreasByPoint(id)
				var out []string
				for as.Next() {
					out = append(out, as.FeatureID().String())
				}
				sort.Strings(out)
				return strings.Join(out, " ")
			}})
		case b6.FeatureTypePath:
			// geometry accessors on the same feature from every goroutine
			ops = append(ops, op{"polyline " + id.String(), func(w b6.World) string {
				if p, ok := w.FindFeatureByID(id).(b6.PhysicalFeature); ok && p != nil {
					var out []string
					for _, pt := range *p.Polyline() {
						out = append(out, wm.LLFromPoint(pt).S2().String())
					}
					return strings.Join(out, " ")
				}
				return "absent"
			}})
		case b6.FeatureTypeArea:
			ops = append(ops, op{"polygons " + id.String(), func(w b6.World) string {
				if a, ok := w.FindFeatureByID(id).(b6.AreaFeature); ok && a != nil {
					var out []string
					for i := 0; i < a.Len(); i++ {
						out = append(out, fmt.Sprintf("%d:%.9f", a.Polygon(i).NumLoops(), a.Polygon(i).Area()*1e9))
					}
					return strings.Join(out, " ")
				}
				return "absent"
			}})
		}
	}
	for _, q := range []b6.Query{b6.All{}, b6.Keyed{Key: "#amenity"}, b6.Keyed{Key: "#highway"}, b6.Typed{Type: b6.FeatureTypeArea, Query: b6.All{}}, b6.Union{b6.Keyed{Key: "#building"}, b6.Keyed{Key: "#highway"}}} {
		q := q
		ops = append(ops, op{"find " + q.String(), func(w b6.World) string { return ids(w.FindFeatures(q)) }})
	}
	ops = append(ops, op{"each", func(w b6.World) string {
		var lock sync.Mutex
		var out []string
		w.EachFeature(func(f b6.Feature, _ int) error {
			lock.Lock()
			out = append(out, f.FeatureID().String())
			lock.Unlock()
			return nil
		}, &b6.EachFeatureOptions{Goroutines: 2})
		sort.Strings(out)
		return strings.Join(out, " ")
	}})
	return ops
}

func check(c Case) vlib.Outcome {
	if len(c.Features) == 0 || c.Goroutines < 2 || c.Goroutines > 16 || c.Rounds < 1 || c.Rounds > 5 || len(c.Order) < c.Goroutines {
		return vlib.Outcome{Skip: true}
	}
	if _, err := wm.BuildBasic(c.Features, 1, true); err != nil {
		return vlib.Outcome{Skip: true, Classes: []string{"skipped:set-not-valid"}}
	}
	var data []byte
	alone, err := build(c, &data)
	if err != nil {
		return vlib.Fail("building the %s world failed: %v", c.World, err)
	}
	ops := operations(c)
	want := make([]string, len(ops))
	for i, o := range ops {
		want[i] = o.run(alone)
	}
	shared, err := build(c, &data)
	if err != nil {
		return vlib.Fail("building the %s world again failed: %v", c.World, err)
	}
	var wg sync.WaitGroup
	start := make(chan struct{})
	failures := make([]string, c.Goroutines)
	for g := 0; g < c.Goroutines; g++ {
		wg.Add(1)
		go func(g int) {
			defer wg.Done()
			<-start
			for r := 0; r < c.Rounds; r++ {
				for i := range ops {
					j := (i + c.Order[g]) % len(ops)
					if got := ops[j].run(shared); got != want[j] && failures[g] == "" {
						failures[g] = fmt.Sprintf("%s: goroutine %d of %d gets %q; alone it is %q", ops[j].name, g, c.Goroutines, got, want[j])
					}
				}
			}
		}(g)
	}
	close(start)
	wg.Wait()
	for _, f := range failures {
		if f != "" {
			return vlib.Fail("concurrent queries on a %s world: %s", c.World, f)
		}
	}
	return vlib.Outcome{NonTrivial: len(c.Features) >= 5, Classes: []string{"world=" + c.World, fmt.Sprintf("goroutines=%d", c.Goroutines)}}
}

// ---------------------------------------------------------------------------
// parallel builds

type BuildCase struct {
	Features []wm.FeatureS `json:"features"`
	Drop     []int         `json:"drop"` // points left out, so that the paths through them are invalid
	Cores    int           `json:"cores"`
}

func genBuild(t *rapid.T) BuildCase {
	typed := [][]string{{nsA[0]}, {nsA[1]}, {nsA[1]}, {nsA[2]}}
	c := BuildCase{Cores: rapid.IntRange(2, 8).Draw(t, "cores")}
	// several copies of a generated set, with other ids: enough features to keep every goroutine busy
	set := wm.GenSet(t, wm.GenConfig{MaxPoints: 6, MaxPaths: 5, MaxLoops: 2, MaxAreas: 3, MaxRelations: 2, Namespaces: nsA, TypedNamespaces: typed}).Features
	for copy, n := 0, rapid.IntRange(1, 12).Draw(t, "copies"); copy < n; copy++ {
		for _, f := range set {
			g := f.Clone()
			shift := func(id wm.FID) wm.FID { id.V += uint64(copy) * 1000; return id }
			g.ID = shift(g.ID)
			for i := range g.Path {
				if g.Path[i].Ref != nil {
					r := shift(*g.Path[i].Ref)
					g.Path[i].Ref = &r
				}
			}
			for i := range g.Polys {
				p := g.Polys[i]
				p.Paths = append([]wm.FID{}, p.Paths...)
				for j := range p.Paths {
					p.Paths[j] = shift(p.Paths[j])
				}
				g.Polys[i] = p
			}
			for i := range g.Members {
				g.Members[i].ID = shift(g.Members[i].ID)
			}
			if g.Point != nil {
				ll := wm.LL{Lat: g.Point.Lat + int32(copy)*20000, Lng: g.Point.Lng}
				g.Point = &ll
			}
			c.Features = append(c.Features, g)
		}
	}
	for i, f := range c.Features {
		if f.Point != nil && rapid.IntRange(0, 3).Draw(t, "drop") == 0 {
			c.Drop = append(c.Drop, i)
		}
	}
	return c
}

func buildWith(c BuildCase, cores int, failInvalid bool) (b6.World, []string, error) {
	drop := map[int]bool{}
	for _, i := range c.Drop {
		drop[i] = true
	}
	b := ingest.NewBasicWorldBuilder(&ingest.BuildOptions{Cores: cores})
	for i, f := range c.Features {
		if !drop[i] {
			b.AddFeature(wm.ToIngest(f))
		}
	}
	w, err := b.Finish(&ingest.BuildOptions{Cores: cores, FailInvalidFeatures: failInvalid})
	var broken []string
	if bf, ok := err.(ingest.BrokenFeatures); ok {
		for _, f := range bf {
			broken = append(broken, f.ID.String())
		}
		sort.Strings(broken)
		return w, broken, nil
	}
	return w, nil, err
}

func checkBuild(c BuildCase) vlib.Outcome {
	if len(c.Features) == 0 || len(c.Features) > 400 || c.Cores < 2 || c.Cores > 16 {
		return vlib.Outcome{Skip: true}
	}
	for _, i := range c.Drop {
		if i < 0 || i >= len(c.Features) {
			return vlib.Outcome{Skip: true}
		}
	}
	_, wantBroken, err := buildWith(c, 1, true)
	if err != nil {
		return vlib.Outcome{Skip: true, Classes: []string{"skipped:build-error"}}
	}
	_, gotBroken, err := buildWith(c, c.Cores, true)
	if err != nil {
		return vlib.Fail("building with %d cores fails: %v", c.Cores, err)
	}
	if strings.Join(gotBroken, " ") != strings.Join(wantBroken, " ") {
		return vlib.Fail("building with %d cores reports %d broken features, with one core %d:\n%v\n%v", c.Cores, len(gotBroken), len(wantBroken), gotBroken, wantBroken)
	}
	one, _, err := buildWith(c, 1, false)
	if err != nil {
		return vlib.Fail("building with one core fails: %v", err)
	}
	many, _, err := buildWith(c, c.Cores, false)
	if err != nil {
		return vlib.Fail("building with %d cores fails: %v", c.Cores, err)
	}
	set := wm.Set{Features: c.Features}
	queries := []b6.Query{b6.All{}, b6.Keyed{Key: "#highway"}}
	o := wm.ObserveOptions{}
	if d := wm.Diff(wm.Observe(one, set.Probes(), queries, o), wm.Observe(many, set.Probes(), queries, o), "1 core ", fmt.Sprintf("%d cores", c.Cores)); d != "" {
		return vlib.Fail("the world built with %d cores differs from the one built with one:\n%s", c.Cores, d)
	}
	return vlib.Outcome{NonTrivial: len(wantBroken) >= 2, Classes: []string{fmt.Sprintf("cores=%d", c.Cores), fmt.Sprintf("broken>=2:%v", len(wantBroken) >= 2)}}
}

func TestPropReaders(t *testing.T) {
	vlib.Run(t, vlib.Config{ID: "C35", Name: "concurrent-readers", CaseTimeout: 120e9,
		Rule: "generated worlds (points, paths, areas over paths and lat/lng polygons, relations) as basic, mutable, overlay and compact worlds; 2-8 goroutines each run every read operation (lookups, locations, relations, areas by point, traversal, searches, enumeration, and the polyline and polygon accessors of every path and area) for 1-3 rounds starting at generated offsets, on a world nobody has queried before (a compact world's cache is cold); built with the race detector; oracle: no race report, and every result equals the one obtained alone on a separate instance; non-trivial = at least 5 features"},
		gen, check)
}

func TestPropBuilders(t *testing.T) {
	vlib.Run(t, vlib.Config{ID: "C35", Name: "parallel-build", CaseTimeout: 120e9,
		Rule: "1-12 copies of a generated feature set with a quarter of the points left out (so the paths, areas and relations over them are invalid), built by BasicWorldBuilder with 2-8 cores; built with the race detector; oracle: no race report, the same broken features as a one-core build when failing on invalid features, and otherwise a world with the same canonical observation; non-trivial = at least two broken features"},
		genBuild, checkBuild)
}
