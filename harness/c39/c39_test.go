// C39: Tag lists behave as ordered maps.
package c39

import (
	"fmt"
	"testing"

	"diagonal.works/b6"
	"pgregory.net/rapid"
	"verif/vlib"
)

type KV struct {
	K string `json:"k"`
	V string `json:"v"`
}

type Op struct {
	Kind string   `json:"op"` // set, remove, removeTags, merge, get, clone
	Key  string   `json:"key,omitempty"`
	Val  string   `json:"val,omitempty"`
	Keys []string `json:"keys,omitempty"`
	Tags []KV     `json:"tags,omitempty"`
}

type Case struct {
	Initial []KV `json:"initial"`
	Ops     []Op `json:"ops"`
}

var keyPool = []string{"a", "b", "c", "d", "e", "f", "#g", "@h", "name", "k=odd", ""}

func genKey(t *rapid.T) string { return rapid.SampledFrom(keyPool[:10]).Draw(t, "key") }

func genKVs(t *rapid.T, label string) []KV {
	keys := rapid.SliceOfNDistinct(rapid.SampledFrom(keyPool[:10]), 0, 8, rapid.ID[string]).Draw(t, label)
	out := make([]KV, len(keys))
	for i, k := range keys {
		out[i] = KV{k, rapid.SampledFrom([]string{"", "x", "y", "1", "long value", "é"}).Draw(t, "v")}
	}
	return out
}

func gen(t *rapid.T) Case {
	c := Case{Initial: genKVs(t, "initial")}
	n := rapid.IntRange(1, 12).Draw(t, "nops")
	for i := 0; i < n; i++ {
		var op Op
		switch rapid.IntRange(0, 9).Draw(t, "kind") {
		case 0, 1:
			op = Op{Kind: "set", Key: genKey(t), Val: rapid.SampledFrom([]string{"", "p", "q", "2"}).Draw(t, "val")}
		case 2:
			op = Op{Kind: "remove", Key: genKey(t)}
		case 3, 4, 5:
			op = Op{Kind: "removeTags", Keys: rapid.SliceOfNDistinct(rapid.SampledFrom(keyPool[:10]), 0, 6, rapid.ID[string]).Draw(t, "keys")}
		case 6:
			op = Op{Kind: "merge", Tags: genKVs(t, "other")}
		case 7, 8:
			op = Op{Kind: "get", Key: genKey(t)}
		case 9:
			op = Op{Kind: "clone"}
		}
		c.Ops = append(c.Ops, op)
	}
	return c
}

func toTags(kvs []KV) b6.Tags {
	tags := make(b6.Tags, 0, len(kvs))
	for _, kv := range kvs {
		tags = append(tags, b6.Tag{Key: kv.K, Value: b6.NewStringExpression(kv.V)})
	}
	return tags
}

func distinct(kvs []KV) bool {
	seen := map[string]bool{}
	for _, kv := range kvs {
		if seen[kv.K] || kv.K == "" {
			return false
		}
		seen[kv.K] = true
	}
	return true
}

func compare(what string, tags b6.Tags, model []KV) error {
	if len(tags) != len(model) {
		return fmt.Errorf("%s: got %d tags %v, model has %d %v", what, len(tags), tags, len(model), model)
	}
	for i := range model {
		if tags[i].Key != model[i].K || tags[i].Value.String() != model[i].V {
			return fmt.Errorf("%s: tag %d is %s=%s, model has %s=%s (list %v, model %v)", what, i, tags[i].Key, tags[i].Value.String(), model[i].K, model[i].V, tags, model)
		}
	}
	return nil
}

func check(c Case) vlib.Outcome {
	if !distinct(c.Initial) {
		return vlib.Outcome{Skip: true}
	}
	for _, op := range c.Ops {
		if op.Kind == "merge" && !distinct(op.Tags) {
			return vlib.Outcome{Skip: true}
		}
	}
	tags := toTags(c.Initial)
	model := append([]KV{}, c.Initial...)
	var original b6.Tags // set by clone: must not change afterwards
	var originalModel []KV
	out := vlib.Outcome{}
	multiRemove := false
	for i, op := range c.Ops {
		what := fmt.Sprintf("after op %d (%s)", i, op.Kind)
		switch op.Kind {
		case "set":
			modified, old := tags.ModifyOrAddTag(b6.Tag{Key: op.Key, Value: b6.NewStringExpression(op.Val)})
			found := false
			for j := range model {
				if model[j].K == op.Key {
					if !modified || old.String() != model[j].V {
						return vlib.Fail("%s: ModifyOrAddTag(%q) returned (%v,%q), model had value %q", what, op.Key, modified, old.String(), model[j].V)
					}
					model[j].V = op.Val
					found = true
				}
			}
			if !found {
				if modified {
					return vlib.Fail("%s: ModifyOrAddTag(%q) reported a modification of an absent key", what, op.Key)
				}
				model = append(model, KV{op.Key, op.Val})
			}
		case "remove":
			tags.RemoveTag(op.Key)
			model = remove(model, []string{op.Key})
		case "removeTags":
			before := len(model)
			tags.RemoveTags(op.Keys)
			model = remove(model, op.Keys)
			if before-len(model) >= 2 {
				multiRemove = true
			}
		case "merge":
			tags.MergeFrom(toTags(op.Tags))
			model = append([]KV{}, op.Tags...)
		case "get":
			got := tags.Get(op.Key)
			want := ""
			present := false
			for _, kv := range model {
				if kv.K == op.Key {
					want, present = kv.V, true
				}
			}
			if present != got.IsValid() || (present && (got.Key != op.Key || got.Value.String() != want)) {
				return vlib.Fail("%s: Get(%q) = %v valid=%v, model present=%v value=%q", what, op.Key, got, got.IsValid(), present, want)
			}
		case "clone":
			clone := tags.Clone()
			if err := compare(what+" clone", clone, model); err != nil {
				return vlib.Outcome{Err: err}
			}
			original, originalModel = tags, append([]KV{}, model...)
			tags = clone
			out.Classes = append(out.Classes, "clone")
		}
		if err := compare(what, tags, model); err != nil {
			return vlib.Outcome{Err: err}
		}
		if original != nil {
			if err := compare(what+" (original of the clone)", original, originalModel); err != nil {
				return vlib.Outcome{Err: err}
			}
		}
	}
	out.NonTrivial = multiRemove
	if multiRemove {
		out.Classes = append(out.Classes, "removeTags-removes>=2")
	}
	return out
}

func remove(model []KV, keys []string) []KV {
	out := []KV{}
	for _, kv := range model {
		drop := false
		for _, k := range keys {
			if k == kv.K {
				drop = true
			}
		}
		if !drop {
			out = append(out, kv)
		}
	}
	return out
}

func TestProp(t *testing.T) {
	vlib.Run(t, vlib.Config{ID: "C39", Name: "tags-ordered-map",
		Rule: "tag lists of 0-8 distinct keys and 1-12 operations (ModifyOrAddTag, RemoveTag, RemoveTags with present/absent/duplicate keys, MergeFrom, Get, Clone) compared step by step with an ordered list model; non-trivial = some RemoveTags call removes >= 2 tags; distinct by case JSON"},
		gen, check)
}
