// C04: spatial search never misses or invents a feature its query accepts.
package c04

import (
	"fmt"
	"github.com/golang/geo/s2"
	"sort"
	"testing"

	"diagonal.works/b6"
	"diagonal.works/b6/ingest"
	"pgregory.net/rapid"
	"verif/vlib"
	"verif/wm"
)

type Case struct {
	Set     wm.GeoSet     `json:"set"`
	World   string        `json:"world"` // basic, mutable, overlay, compact
	Queries []wm.GeoQuery `json:"queries"`
}

func gen(t *rapid.T) Case {
	huge := !vlib.Known("c04-level0-covering-cells")
	c := Case{
		Set:   wm.GenGeoSet(t, wm.GeoConfig{MaxFeatures: 8, Huge: huge}),
		World: rapid.SampledFrom([]string{"basic", "basic", "basic", "mutable", "overlay", "overlay", "compact"}).Draw(t, "world"),
	}
	n := rapid.IntRange(1, 8).Draw(t, "nqueries")
	for i := 0; i < n; i++ {
		c.Queries = append(c.Queries, wm.GenGeoQuery(t, c.Set))
	}
	return c
}

func build(c Case) (b6.World, error) {
	switch c.World {
	case "basic":
		return wm.BuildBasic(c.Set.Features, 1, true)
	case "mutable":
		return wm.BuildMutable(c.Set.Features)
	case "compact":
		if _, err := wm.BuildBasic(c.Set.Features, 1, true); err != nil {
			return nil, err
		}
		return wm.BuildCompact(c.Set.Features, 1)
	case "overlay":
		half := len(c.Set.Features) / 2
		base, err := wm.BuildBasic(c.Set.Features[:half], 1, true)
		if err != nil {
			return nil, err
		}
		o := ingest.NewMutableOverlayWorld(base)
		for _, f := range c.Set.Features[half:] {
			if err := o.AddFeature(wm.ToIngest(f)); err != nil {
				return nil, err
			}
		}
		return o, nil
	}
	return nil, fmt.Errorf("bad world")
}

func check(c Case) vlib.Outcome {
	if len(c.Set.Features) == 0 || len(c.Queries) == 0 {
		return vlib.Outcome{Skip: true}
	}
	if vlib.Known("c04-level0-covering-cells") && c.Set.ScaleE7 > 10000000 {
		return vlib.Excluded("c04-level0-covering-cells")
	}
	// polygons are simple loops: the search code is entitled to valid geometry
	for _, q := range c.Queries {
		for _, p := range q.Polys {
			if !wm.ValidPoly(p) {
				return vlib.Outcome{Skip: true, Classes: []string{"skipped:degenerate-polygon"}}
			}
		}
	}
	for _, f := range c.Set.Features {
		for _, p := range f.Polys {
			if len(p.Loops) > 0 && !wm.ValidPoly(p) {
				return vlib.Outcome{Skip: true, Classes: []string{"skipped:degenerate-polygon"}}
			}
			for _, l := range p.Loops {
				var ps []s2.Point
				for _, ll := range l {
					ps = append(ps, ll.Point())
				}
				if len(ps) < 3 || s2.LoopFromPoints(ps).Validate() != nil {
					return vlib.Outcome{Skip: true, Classes: []string{"skipped:degenerate-polygon"}}
				}
			}
		}
	}
	w, err := build(c)
	if err != nil {
		return vlib.Outcome{Skip: true, Classes: []string{"skipped:set-not-valid"}}
	}
	// every feature of the generated sets is indexed (points carry a tag)
	var all []b6.Feature
	if err := w.EachFeature(func(f b6.Feature, _ int) error {
		all = append(all, f)
		return nil
	}, &b6.EachFeatureOptions{Goroutines: 1}); err != nil {
		return vlib.Fail("EachFeature: %v", err)
	}
	sort.Slice(all, func(i, j int) bool { return all[i].FeatureID().Less(all[j].FeatureID()) })
	if len(all) != len(c.Set.Features) {
		return vlib.Fail("world has %d features, set has %d", len(all), len(c.Set.Features))
	}
	out := vlib.Outcome{Classes: []string{"world=" + c.World, fmt.Sprintf("scale=%d", c.Set.ScaleE7)}}
	for qi, gq := range c.Queries {
		if !gq.Valid() {
			return vlib.Outcome{Skip: true}
		}
		if c.World == "overlay" && gq.Kind == "feature" && vlib.Known("c04-intersects-feature-across-layers") {
			inBase := false
			for _, f := range c.Set.Features[:len(c.Set.Features)/2] {
				if f.ID == *gq.Feature {
					inBase = true
				}
			}
			if !inBase {
				out.Classes = append(out.Classes, "excluded:c04-intersects-feature-across-layers")
				continue
			}
		}
		q := gq.Query()
		var want []string
		for _, f := range all {
			if q.Matches(f, w) && gq.Region().Matches(f, w) && (gq.AndKey == "" || f.Get(gq.AndKey).IsValid()) && (gq.Typed == 0 || f.FeatureID().Type == wm.Types[gq.Typed-1]) {
				want = append(want, f.FeatureID().String())
			}
		}
		var got []string
		fs := w.FindFeatures(q)
		for fs.Next() {
			got = append(got, fs.FeatureID().String())
		}
		if fmt.Sprint(got) != fmt.Sprint(want) {
			return vlib.Fail("%s world, query %d %s: FindFeatures returns %v, but the query's own test accepts exactly %v of the %d indexed features", c.World, qi, q, got, want, len(all))
		}
		if len(want) > 0 && len(want) < len(all) {
			out.NonTrivial = true
		}
		out.Classes = append(out.Classes, "query="+gq.Kind)
	}
	return out
}

func TestProp(t *testing.T) {
	vlib.Run(t, vlib.Config{ID: "C04", Name: "spatial-search", CaseTimeout: 120e9,
		Rule: "2-8 indexed features (tagged points, lat/lng paths, areas with 1-3 polygons incl. non-convex ones and holes) at extents from 3e-6 to 40 degrees around anchors incl. cube-face edges, the far north and the antimeridian, in a basic, BasicMutableWorld, MutableOverlayWorld (half base, half overlay) or compact world; 1-8 queries (cap, cells, point, polyline, multipolygon, intersecting-feature, optionally inside Typed and/or intersected with a keyed query); oracle: FindFeatures, in order, equals the brute-force list of enumerated features for which the query's own Matches is true; non-trivial = some but not all features match"},
		gen, check)
}
