// C02: the compact world answers every query like the in-memory world.
package c02

import (
	"fmt"
	"strings"
	"testing"

	"pgregory.net/rapid"
	"verif/vlib"
	"verif/wm"
)

type Case struct {
	Data       wm.OSMData `json:"data"`
	Goroutines int        `json:"goroutines"`
}

func gen(t *rapid.T) Case {
	return Case{
		Data:       wm.GenOSM(t, wm.OSMGenConfig{MaxNodes: 8, MaxWays: 5, MaxClosed: 3, MaxRelations: 4, MissingNodes: true, Multipolygons: true, Network: true}),
		Goroutines: rapid.SampledFrom([]int{1, 2}).Draw(t, "goroutines"),
	}
}

func check(c Case) vlib.Outcome {
	if !c.Data.Valid() || c.Goroutines < 1 || c.Goroutines > 16 {
		return vlib.Outcome{Skip: true}
	}
	basic, err := c.Data.BuildBasic(1)
	if err != nil {
		return vlib.Fail("in-memory build failed: %v", err)
	}
	comp, err := c.Data.BuildCompact(c.Goroutines)
	if err != nil {
		return vlib.Fail("compact build failed: %v", err)
	}
	probes := c.Data.Probes()
	var lls []wm.LL
	for _, n := range c.Data.Nodes {
		lls = append(lls, n.LL)
	}
	queries := append(c.Data.Queries(), wm.SpatialQueries(lls)...)
	want := wm.Observe(basic, probes, queries, wm.ObserveOptions{})
	got := wm.Observe(comp, probes, queries, wm.ObserveOptions{})
	if vlib.Known("c02-transitive-references") {
		relaxTransitive(want, got)
	}
	if vlib.Known("c02-traverse-closed-or-dropped-ways") {
		relaxTraverse(c.Data, want, got)
	}
	if d := wm.Diff(want, got, "in-memory", "compact  "); d != "" {
		return vlib.Fail("compact and in-memory worlds built from the same OSM data answer differently:\n%s", d)
	}
	nonEmpty := false
	for k, v := range want {
		if strings.HasPrefix(k, "find ") && v != "" {
			nonEmpty = true
		}
	}
	structured := len(c.Data.Relations) > 0
	for _, w := range c.Data.Ways {
		if len(w.Nodes) > 2 && w.Nodes[0] == w.Nodes[len(w.Nodes)-1] {
			structured = true
		}
	}
	out := vlib.Outcome{NonTrivial: structured && nonEmpty}
	if len(c.Data.Relations) > 0 {
		out.Classes = append(out.Classes, "has-relation")
	}
	return out
}

// relaxTransitive implements the known finding: the in-memory world reports
// referrers transitively (point -> path -> relation), the compact world only
// direct ones. Behind the finding the check still requires that the compact
// answer is a subset of the in-memory answer.
func relaxTransitive(want, got wm.Observation) {
	for k, w := range want {
		if !(strings.HasPrefix(k, "references ") || strings.HasPrefix(k, "relations ")) {
			continue
		}
		g := got[k]
		if g == w {
			continue
		}
		ws := map[string]bool{}
		for _, id := range strings.Fields(w) {
			ws[id] = true
		}
		subset := true
		seen := map[string]bool{}
		for _, id := range strings.Fields(g) {
			if !ws[id] || seen[id] { // not a referrer at all, or reported twice
				subset = false
			}
			seen[id] = true
		}
		if subset && !strings.HasPrefix(g, "PANIC") {
			got[k] = w
		}
	}
}

// relaxTraverse implements the known finding on Traverse: the two worlds
// disagree for origins on closed ways (each reports only one direction around
// the loop, with the origin at the first or the last index) and near ways that
// were dropped because of missing nodes (the compact world still counts them
// when deciding what is a junction). Behind the finding, traversal is still
// compared for every origin that only touches open, complete ways.
func relaxTraverse(d wm.OSMData, want, got wm.Observation) {
	present := map[int64]bool{}
	for _, n := range d.Nodes {
		present[n.ID] = true
	}
	dirty := map[int64]bool{}
	for _, w := range d.Ways {
		bad := len(w.Nodes) > 1 && w.Nodes[0] == w.Nodes[len(w.Nodes)-1]
		seen := map[int64]bool{}
		for _, n := range w.Nodes {
			if !present[n] {
				bad = true
			}
			if seen[n] {
				bad = true // self-intersecting way
			}
			seen[n] = true
		}
		if bad {
			for _, n := range w.Nodes {
				dirty[n] = true
			}
		}
	}
	// a clean origin may still traverse towards a dirty node; keep only origins whose ways are all clean
	for _, w := range d.Ways {
		touches := false
		for _, n := range w.Nodes {
			if dirty[n] {
				touches = true
			}
		}
		if touches {
			for _, n := range w.Nodes {
				dirty[n] = true
			}
		}
	}
	for n := range dirty {
		k := "traverse " + ingestNodeKey(n)
		if _, ok := want[k]; ok {
			got[k] = want[k]
		}
	}
}

func ingestNodeKey(n int64) string {
	return fmt.Sprintf("point/openstreetmap.org/node/%d", n)
}

func TestProp(t *testing.T) {
	vlib.Run(t, vlib.Config{ID: "C02", Name: "compact-vs-memory", CaseTimeout: 120e9,
		Rule: "OSM-shaped data (2-8 free nodes, 0-5 open ways sharing nodes with highway/oneway tags, 0-3 closed ways over their own nodes, 0-4 relations: multipolygons over closed and occasionally open ways, plain relations over nodes, ways, closed ways, relations and absent members; missing way nodes; tags in and out of the searchable mapping); both worlds are built from the same MemoryOSMSource and every read query (lookup, existence, locations at E7, ordered tag and spatial searches, references typed and untyped, relations, areas by point, traversal segments, enumeration) over all mentioned, derived and absent IDs is compared; non-trivial = has a closed way or relation and some search has a non-empty answer"},
		gen, check)
}
