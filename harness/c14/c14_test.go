// C14: snapshots never change after they are taken.
package c14

import (
	"fmt"
	"testing"

	"diagonal.works/b6"
	"diagonal.works/b6/ingest"
	"pgregory.net/rapid"
	"verif/vlib"
	"verif/wm"
)

type Op struct {
	Kind   string `json:"op"` // addtag, removetag, retag (AddFeature with same geometry, new tags), move (point to a new place), newpoint, snapshot
	Target int    `json:"target"`
	Key    string `json:"key,omitempty"`
	Val    string `json:"val,omitempty"`
	DLat   int32  `json:"dlat,omitempty"`
	DLng   int32  `json:"dlng,omitempty"`
}

type Case struct {
	Set   wm.Set `json:"set"`
	World string `json:"world"` // overlay, tags
	Ops   []Op   `json:"ops"`   // at least one snapshot
}

var keys = []string{"name", "colour", "#amenity", "#highway", "@wikidata"}
var vals = []string{"cafe", "red", "yes", "v1"}

func gen(t *rapid.T) Case {
	c := Case{
		Set: wm.GenSet(t, wm.GenConfig{MaxPoints: 4, MaxPaths: 3, MaxLoops: 1, MaxAreas: 1, MaxRelations: 2,
			Namespaces: []string{string(b6.NamespaceOSMNode), string(b6.NamespaceOSMWay), string(b6.NamespaceOSMRelation)},
			TagKeys:    keys, TagValues: vals}),
		World: rapid.SampledFrom([]string{"overlay", "overlay", "overlay", "tags"}).Draw(t, "world"),
	}
	n := rapid.IntRange(2, 20).Draw(t, "nops")
	snapAt := rapid.IntRange(0, n-2).Draw(t, "snapat")
	for i := 0; i < n; i++ {
		if i == snapAt {
			c.Ops = append(c.Ops, Op{Kind: "snapshot"})
			continue
		}
		op := Op{Target: rapid.IntRange(0, 40).Draw(t, "target")}
		switch rapid.IntRange(0, 11).Draw(t, "kind") {
		case 0, 1, 2:
			op.Kind, op.Key, op.Val = "addtag", rapid.SampledFrom(keys).Draw(t, "key"), rapid.SampledFrom(vals).Draw(t, "val")
		case 3, 4:
			op.Kind, op.Key = "removetag", rapid.SampledFrom(keys).Draw(t, "key")
		case 5, 6:
			op.Kind, op.Key, op.Val = "retag", rapid.SampledFrom(keys).Draw(t, "key"), rapid.SampledFrom(vals).Draw(t, "val")
		case 7, 8, 9:
			op.Kind = "move"
			op.DLat, op.DLng = int32(rapid.IntRange(-900, 900).Draw(t, "dlat")), int32(rapid.IntRange(-900, 900).Draw(t, "dlng"))
		case 10:
			op.Kind = "newpoint"
		default:
			op.Kind = "snapshot"
		}
		c.Ops = append(c.Ops, op)
	}
	return c
}

type taken struct {
	w     b6.World
	obs   wm.Observation
	at    int
	edits int // edits of the live world since
}

func check(c Case) vlib.Outcome {
	if len(c.Set.Features) == 0 {
		return vlib.Outcome{Skip: true}
	}
	base, err := wm.BuildBasic(c.Set.Features, 1, true)
	if err != nil {
		return vlib.Outcome{Skip: true, Classes: []string{"skipped:set-not-valid"}}
	}
	var overlay *ingest.MutableOverlayWorld
	var tagsWorld *ingest.MutableTagsOverlayWorld
	var live b6.World
	switch c.World {
	case "overlay":
		overlay = ingest.NewMutableOverlayWorld(base)
		live = overlay
	case "tags":
		tagsWorld = ingest.NewMutableTagsOverlayWorld(base)
		live = tagsWorld
	default:
		return vlib.Outcome{Skip: true}
	}
	current := map[b6.FeatureID]wm.FeatureS{}
	var order []b6.FeatureID
	for _, f := range c.Set.Features {
		current[f.ID.ID()] = f.Clone()
		order = append(order, f.ID.ID())
	}
	probes := c.Set.Probes()
	for i := 0; i < 8; i++ {
		probes = append(probes, b6.FeatureID{Type: b6.FeatureTypePoint, Namespace: "diagonal.works/ns/new", Value: uint64(i)})
	}
	var queries []b6.Query
	for _, k := range keys {
		if k[0] == '#' || k[0] == '@' {
			queries = append(queries, b6.Keyed{Key: k})
		}
	}
	queries = append(queries, b6.All{}, b6.Tagged{Key: "#amenity", Value: b6.NewStringExpression("cafe")}, b6.Typed{Type: b6.FeatureTypePath, Query: b6.All{}})
	var lls []wm.LL
	for _, f := range c.Set.Features {
		if f.Point != nil {
			lls = append(lls, *f.Point)
		}
	}
	queries = append(queries, wm.SpatialQueries(lls)...)

	var snaps []*taken
	newPoints := 0
	editedAfterSnapshot := false
	for i, op := range c.Ops {
		if op.Target < 0 {
			return vlib.Outcome{Skip: true}
		}
		id := order[op.Target%len(order)]
		what := fmt.Sprintf("op %d %s(%v)", i, op.Kind, id)
		applied := false
		switch op.Kind {
		case "snapshot":
			var s b6.World
			if overlay != nil {
				s = overlay.Snapshot()
			} else {
				s = tagsWorld.Snapshot()
			}
			snaps = append(snaps, &taken{w: s, obs: wm.Observe(s, probes, queries, wm.ObserveOptions{}), at: i})
			// the live world must read the same as the snapshot just taken
			if d := wm.Diff(snaps[len(snaps)-1].obs, wm.Observe(live, probes, queries, wm.ObserveOptions{}), "snapshot", "live    "); d != "" {
				return vlib.Fail("%s: immediately after Snapshot() the live world differs from the snapshot:\n%s", what, d)
			}
			continue
		case "addtag":
			tag := b6.Tag{Key: op.Key, Value: b6.NewStringExpression(op.Val)}
			if overlay != nil {
				if err := overlay.AddTag(id, tag); err != nil {
					return vlib.Fail("%s: AddTag failed: %v", what, err)
				}
			} else {
				tagsWorld.AddTag(id, tag)
			}
			if g := live.FindFeatureByID(id).Get(op.Key); !g.IsValid() || g.Value.String() != op.Val {
				return vlib.Fail("%s: the live world does not reflect the edit: Get(%s) = %q valid=%v", what, op.Key, g.Value.String(), g.IsValid())
			}
			applied = true
		case "removetag":
			if overlay == nil {
				continue
			}
			if err := overlay.RemoveTag(id, op.Key); err != nil {
				return vlib.Fail("%s: RemoveTag failed: %v", what, err)
			}
			if g := live.FindFeatureByID(id).Get(op.Key); g.IsValid() {
				return vlib.Fail("%s: the live world still has %s=%q after RemoveTag", what, op.Key, g.Value.String())
			}
			applied = true
		case "retag", "move":
			if overlay == nil {
				continue
			}
			spec := current[id].Clone()
			if op.Kind == "retag" {
				spec.Tags = []wm.TagS{{K: op.Key, V: op.Val}}
			} else {
				if spec.Point == nil {
					continue
				}
				ll := wm.LL{Lat: spec.Point.Lat + op.DLat, Lng: spec.Point.Lng + op.DLng}
				spec.Point = &ll
			}
			if err := overlay.AddFeature(wm.ToIngest(spec)); err != nil {
				continue // e.g. the move would invalidate a closed path: rejected, nothing changes (C13)
			}
			current[id] = spec
			if op.Kind == "move" {
				ll, err := live.FindLocationByID(id)
				if err != nil || wm.LLFromS2(ll) != *spec.Point {
					return vlib.Fail("%s: the live world does not reflect the move: location %v err %v, want %v", what, wm.LLFromS2(ll), err, *spec.Point)
				}
			}
			applied = true
		case "newpoint":
			if overlay == nil {
				continue
			}
			newPoints++
			ll := wm.LL{Lat: 515400000 + int32(newPoints*977), Lng: -1300000 + int32(newPoints*1013)}
			spec := wm.FeatureS{ID: wm.FID{T: 0, NS: "diagonal.works/ns/new", V: uint64(newPoints)}, Point: &ll, Tags: []wm.TagS{{K: "#amenity", V: "cafe"}}}
			if err := overlay.AddFeature(wm.ToIngest(spec)); err != nil {
				return vlib.Fail("%s: adding a new point failed: %v", what, err)
			}
			current[spec.ID.ID()] = spec
			order = append(order, spec.ID.ID())
			if !live.HasFeatureWithID(spec.ID.ID()) {
				return vlib.Fail("%s: the live world does not have the new point", what)
			}
			applied = true
		default:
			return vlib.Outcome{Skip: true}
		}
		if applied && len(snaps) > 0 {
			editedAfterSnapshot = true
		}
		for _, s := range snaps {
			if applied {
				s.edits++
			}
			now := wm.Observe(s.w, probes, queries, wm.ObserveOptions{})
			if d := wm.Diff(s.obs, now, "when taken", "now       "); d != "" {
				return vlib.Fail("snapshot taken at op %d changed after %s on the live world:\n%s", s.at, what, d)
			}
		}
	}
	out := vlib.Outcome{NonTrivial: editedAfterSnapshot, Classes: []string{"world=" + c.World}}
	if len(snaps) > 1 {
		out.Classes = append(out.Classes, "nested-snapshots")
	}
	return out
}

func TestProp(t *testing.T) {
	vlib.Run(t, vlib.Config{ID: "C14", Name: "snapshots", CaseTimeout: 60e9,
		Rule: "a generated valid base in a basic world under a MutableOverlayWorld or MutableTagsOverlayWorld; a history of 2-20 operations (AddTag/RemoveTag with plain and searchable keys, AddFeature replacing tags, AddFeature moving a point that paths may use, new points) with one or more Snapshot() calls in between; each snapshot's canonical observation (lookups, geometry of paths resolved through points, tag and spatial searches with the features they return, references, traversal, enumeration) is recorded when taken and must be identical after every later step, while the live world must show each edit; non-trivial = at least one edit applied after a snapshot"},
		gen, check)
}
