#!/usr/bin/env python3
"""Validate MANIFEST.json and evidence files against the schemas (uses the tooling venv's jsonschema)."""
import glob, json, sys
import jsonschema
ok = True
m = json.load(open('/verif/MANIFEST.json'))
jsonschema.validate(m, json.load(open('/root/.vp/MANIFEST.schema.json')))
es = json.load(open('/root/.vp/EVIDENCE.schema.json'))
for c in m['checks']:
    p = c['evidence_file']
    try:
        jsonschema.validate(json.load(open(p)), es)
    except Exception as e:
        ok = False
        print('BAD', p, str(e)[:300])
print('manifest ok;', len(m['checks']), 'checks;', 'evidence ok' if ok else 'evidence problems')
sys.exit(0 if ok else 1)
