#!/usr/bin/env python3
"""addfinding.py <property> <id> <known|fixed> <signature> <replay> <commit|-> <what...>"""
import json, sys
prop, fid, status, sig, replay, commit = sys.argv[1:7]
what = " ".join(sys.argv[7:])
p = '/verif/known_findings.json'
d = json.load(open(p))
d['findings'] = [f for f in d['findings'] if f['id'] != fid]
e = {"property": prop, "id": fid, "status": status, "signature": sig, "replay": replay, "what": what}
if commit != '-':
    e['commit'] = commit
d['findings'].append(e)
d.setdefault('fixed_log', [])
if status == 'fixed':
    line = f"fixed: property={prop} {commit} {what}"
    if line not in d['fixed_log']:
        d['fixed_log'].append(line)
json.dump(d, open(p, 'w'), indent=1)
print("ok", fid)
